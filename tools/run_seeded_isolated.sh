#!/bin/bash
# usage: tools/run_seeded_isolated.sh <verif-commit> <tier> <seeded ids...>
# Runs the checks of a given /verif commit against seeded faults WITHOUT touching /repo:
# a scratch worktree of /repo (/tmp/wt/mutrepo) receives the patch and a scratch worktree of /verif
# (/tmp/wt/verif-<commit>) has its harness pointed at it. Results go to stdout (tab separated).
set -u
COMMIT="$1"; TIER="$2"; shift; shift
MUT=${MUT:-/tmp/wt/mutrepo}
SNAP=${SNAP:-/tmp/wt/verif-$COMMIT-$(basename "$MUT")}
[ -d "$MUT" ] || { git -C /repo worktree add -q --detach "$MUT" HEAD && cp /repo/Cargo.lock "$MUT/"; }
git -C "$MUT" checkout -q --detach "$(git -C /repo rev-parse HEAD)"; git -C "$MUT" checkout -q -- .
if [ ! -d "$SNAP" ]; then
  git -C /verif worktree add -q --detach "$SNAP" "$COMMIT" || exit 3
  sed -i "s|path = \"/repo\"|path = \"$MUT\"|" "$SNAP/harness/Cargo.toml"
fi
for m in "$@"; do
  id=${m%%-*}
  git -C "$MUT" checkout -q -- .
  if ! git -C "$MUT" apply "/verif/seeded/$m/patch.diff" 2>/dev/null; then echo -e "$m\t$TIER\tpatch-does-not-apply"; continue; fi
  start=$(date +%s)
  out=$(cd "$SNAP" && JSV_REPO_DIR="$MUT" ./check $id $TIER 2>&1); code=$?
  end=$(date +%s)
  sig=$(echo "$out" | grep -E "^  violation \[" | head -1 | sed 's/^  violation \[\([^]]*\)\].*/\1/')
  echo -e "$m\t$TIER\texit=$code\t$((end-start))s\t$sig"
  git -C "$MUT" checkout -q -- .
done
