#!/usr/bin/env python3
"""Validates MANIFEST.json and every evidence file against the schemas in /root/.vp."""
import json, sys, glob
import jsonschema
ok = True
m = json.load(open('/verif/MANIFEST.json'))
try:
    jsonschema.validate(m, json.load(open('/root/.vp/MANIFEST.schema.json')))
    print('MANIFEST.json valid;', len(m['checks']), 'checks,', len(m.get('not_applicable', [])), 'not_applicable')
except Exception as e:
    ok = False
    print('MANIFEST INVALID', str(e)[:400])
es = json.load(open('/root/.vp/EVIDENCE.schema.json'))
for f in sorted(glob.glob('/verif/evidence/*.json')):
    try:
        jsonschema.validate(json.load(open(f)), es)
        print(f, 'valid')
    except Exception as e:
        ok = False
        print(f, 'INVALID', str(e)[:400])
sys.exit(0 if ok else 1)
