#!/bin/bash
# usage: tools/store_seeded.sh <prefix e.g. R3> <ID> <k> <n>   -- confirms /tmp/wt/<prefix><ID>-out/{patch,demo,meta}<k> and stores it as seeded/<ID>-<n>
set -u
P="$1"; ID="$2"; K="$3"; N="$4"; ROUND="${P#R}"
if ! /verif/tools/confirm_seeded.sh /tmp/wt/$P$ID-out $P$ID $K; then exit 1; fi
d=/verif/seeded/$ID-$N; mkdir -p $d
cp /tmp/wt/rebased-$P$ID-$K.diff $d/patch.diff; cp /tmp/wt/$P$ID-out/demo$K.rs $d/demo.rs
python3 - "$P" "$ID" "$K" "$N" "$ROUND" <<'PY'
import json,sys
p,i,k,n,r=sys.argv[1:6]
m=json.load(open(f'/tmp/wt/{p}{i}-out/meta{k}.json'))
out={'property': i, 'round': int(r),
 'origin': 'written by a fresh sub-agent that saw only the property text, a scratch worktree, a generic note that a differential tester with exhaustive small inputs and random medium inputs exists and (from round 3 on) one-line summaries of the faults already collected for this property (nothing about the checks in /verif)',
 'summary': m.get('summary'), 'needs_to_manifest': m.get('needs_to_manifest'),
 'confirmed_by': 'tools/confirm_seeded.sh in a scratch worktree of /repo HEAD: patch applies, builds with default and all features, pinned suite (372 tests + doc-tests) passes with it, demo.rs fails with it and passes without it',
 'sub_agent_commands': m.get('commands_run')}
json.dump(out,open(f'/verif/seeded/{i}-{n}/meta.json','w'),indent=1)
PY
