#!/bin/bash
# usage: tools/coverage.sh [tier] [ids...]   (default: quick, all checks but C19)
# The checks run with their reduced (sanitizer-pass) workloads by default: instrumented binaries are 10-50x slower.
# Builds the harness with source-based coverage instrumentation (nightly, separate target dir under
# work/), runs the given checks and prints, per source file of /repo/src, the functions of the library
# that no check executed. Output also in work/coverage/report.txt. Informational: not part of any verdict.
set -u
VERIF="$(cd "$(dirname "$0")/.." && pwd)"
TIER="${1:-quick}"; shift || true
IDS="${*:-C01 C02 C03 C04 C05 C06 C07 C08 C09 C10 C11 C12 C13 C14 C15 C16 C17 C18 C20}"
BIN="$(rustc +nightly --print sysroot)/lib/rustlib/x86_64-unknown-linux-gnu/bin"
T="$VERIF/work/target-cov"; OUT="$VERIF/work/coverage"; rm -rf "$OUT"; mkdir -p "$OUT"
export CARGO_NET_OFFLINE=true JSV_VERIF_DIR="$OUT/verif" JSV_REPO_DIR=/repo
mkdir -p "$OUT/verif/evidence" "$OUT/verif/replays"; cp "$VERIF/known-findings.txt" "$OUT/verif/" 2>/dev/null
( cd "$VERIF/harness" && LLVM_PROFILE_FILE="$OUT/build-%p-%m.profraw" CARGO_TARGET_DIR="$T" RUSTFLAGS="-Cinstrument-coverage --cfg json_syntax_verif" cargo +nightly build --release --offline ) > "$OUT/build.log" 2>&1 || { echo "coverage build failed (see $OUT/build.log)"; exit 2; }
for id in $IDS; do
  LLVM_PROFILE_FILE="$OUT/$id-%p-%m.profraw" "$T/release/jsv" "$id" --tier "$TIER" ${JSV_COV_ARGS:---san --san-div 20} > "$OUT/$id.log" 2>&1
  echo "$id exit=$? $(grep -o 'wall=[0-9.]*s' "$OUT/$id.log" | head -1)"
done
"$BIN/llvm-profdata" merge -sparse "$OUT"/C*.profraw -o "$OUT/all.profdata" || exit 2
"$BIN/llvm-cov" report "$T/release/jsv" -instr-profile="$OUT/all.profdata" $(find /repo/src -name '*.rs') 2>/dev/null > "$OUT/report.txt"
"$BIN/llvm-cov" export "$T/release/jsv" -instr-profile="$OUT/all.profdata" -format=text $(find /repo/src -name '*.rs') 2>/dev/null > "$OUT/export.json"
python3 - "$OUT/export.json" <<'PY' | tee "$OUT/unexecuted.txt"
import json,sys,subprocess
d=json.load(open(sys.argv[1]))
fn=d['data'][0]['functions']
by={}
for f in fn:
    files=[x for x in f['filenames'] if x.startswith('/repo/src')]
    if not files: continue
    name=f['name']
    by.setdefault((files[0],name),0)
    by[(files[0],name)]+=f['count']
# demangle
names=sorted(set(n for (_,n) in by))
try:
    dem=subprocess.run(['rustfilt'],input='\n'.join(names),capture_output=True,text=True).stdout.split('\n')
    m=dict(zip(names,dem))
except Exception:
    m={n:n for n in names}
zero=sorted((f,m.get(n,n)) for (f,n),c in by.items() if c==0)
print("functions of /repo/src instantiated in the harness and never executed: %d of %d"%(len(zero),len(by)))
for f,n in zero: print("  ",f.replace('/repo/',''),n)
PY
tail -1 "$OUT/report.txt"
