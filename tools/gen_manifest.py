#!/usr/bin/env python3
"""Regenerates /verif/MANIFEST.json (kept under version control; edit this script, not the JSON)."""
import json, subprocess
props = [json.loads(l) for l in open('/verif/properties.jsonl')]
hook = subprocess.run("git -C /repo log --format=%h --grep='verif hook' | head -1", shell=True, capture_output=True, text=True).stdout.strip()
T = {
 'C01': ('differential runtime monitoring: every parse verdict of all 13 entry points (and of character sources without a size hint or declaring other encoded lengths) compared with a reference RFC 8259 / UTF-8 recognizer over bounded-exhaustive and generated inputs; typed Parse impls against their token grammars',
         'every string over a 33-character alphabet (len<=5, thorough 6) and an 18-token alphabet, a transition cover of the lexical automata, every scalar value after each of 44 lexical states, every byte string of <=3 bytes at three placements, every truncation and single-byte edit of the 314-file corpus, generated and damaged documents, multi-byte characters and blank runs around offsets 2^12..2^17, strings / numbers / blank runs / escape runs of every length up to 2300 / 1200 / 1200 / 72, every short text through the typed impls, irregular nesting patterns to depth 200, 26 shapes of documents nested or repeated up to 10^6 times (the flat valid ones also in a child process with an ordinary 8 MiB stack); byte inputs re-parsed at another address alignment'),
 'C02': ('reference-decoder oracle on every successful parse; complete sweeps of the escape/scalar tables; key lookups and the full iterator protocol of the lookup iterators against a linear scan; values also under the lenient options',
         'all 65,536 \\uXXXX x 3 hex styles, all 1,048,576 surrogate pairs, all 1,112,064 raw scalars, all backslash+ASCII pairs (complete); small documents enumerated by walking the grammar; generated and large documents (20 k-entry objects, 140 k-item arrays); long strings, numbers and escape runs of every length; wide objects cycling over few keys; irregular nesting patterns; wide objects whose long keys share head and tail and differ in the middle; typed Parse impls; every code-map-returning entry point in turn'),
 'C03': ('panic capture, pull-counting / stack-address-recording character source, deep and long documents in 64 KiB threads inside child processes (exit status observed) in the release build and, thorough tier, in a dev-profile build with the library unoptimized; ASan on reduced workloads in the thorough tier',
         'random bytes in three distributions, random character sequences, every prefix and single-byte edits of the corpus, generated and damaged documents under all 4 option values, lazy sources announcing 2^62 items, 14 nested and 12 flat shapes x sizes 10^3..10^6 (thorough 2*10^6; flat ones also at exactly 2^16-1, 2^16, 2^17), each also followed by an ill-formed byte / a failing source, volume()/count() on the results; a character source that itself parses JSON between characters; sampled inputs through sources declaring other (also zero) character lengths and through the typed Parse impls; long runs (2^12..200,000) of one ill-formed byte at three placements under a watchdog; every sequence of one to three \\u escapes over 19 boundary values of the surrogate and control ranges (complete, cut short, as value / key / unterminated)'),
 'C04': ('metamorphic monitor: print -> reference recognizer -> re-parse (parse_str and parse_slice) == value -> strip whitespace == reference compact form, over (value, option record) pairs; prints into failing sinks interleaved',
         'three presets, exhaustive pairwise cover of the 12 numeric option fields (values 0..3) around 4 base records, random records with every Limit variant and thresholds around the actual widths and beyond any width, strings / keys / numbers of every length up to 2200 / 700, nesting to depth 80 (2000 in a roomy thread), values wider than 65,535 characters, numbers of 4,095-70,000 digits, spacing and indentation up to 256 / beyond 65,535, multi-line documents of every size class up to ~40 KiB, fmt_with at base depths up to 131,072, values obtained through Deserialize from a foreign number token, every Unicode scalar value (64 per string) as string and key'),
 'C05': ('reference fragment/span/volume oracle compared entry by entry with every returned code map (also under lenient options, through typed impls, and in the units of sources declaring UTF-16 / UTF-32 / escaped lengths) and aligned with Value::traverse',
         'every valid token sequence up to 7 (8) tokens in three layouts, all strings over the two alphabets up to the bound, generated, large and block-boundary documents, long lexemes of every length'),
 'C06': ('history + executable model: every operation applied to the real object and to an ordered-list model; after each operation entries, operation result, 10 kinds of key query per key, the iterator protocol of the lookup iterators and the raw index buckets (hook) are compared',
         'every history up to length 4 (5) over 2 keys, 3 (4) over 3 keys, 5 (6) over 1 key, every continuation from seeded states; threshold histories (3..449 distinct keys / 2..200 duplicates x every short tail x ~45 final operations); random histories over 1-400 keys with growth/shrink phases, grow-to-700 / drain histories; bulk construction from iterators with inexact size hints and from vectors with spare capacity; Miri/ASan/dev-profile on reduced histories in the thorough tier'),
 'C07': ('viable-prefix automaton + UTF-8 validator oracle on every parse error (variant, offset, character, span, code units) of slice, str, a rotating third entry point, typed impls and sources declaring other lengths; stream errors injected at a character position',
         'the C01 families plus errors below 1,023-65,537 open containers, every two-character escape next to a surrogate escape, single-character edits at every position of generated documents and all sequences of surrogate/escape/raw string elements'),
 'C08': ('byte-for-byte comparison of compact_print / to_string / Display / String::from (also under format specifications, after prints into failing sinks and for equal values held in other storage: front mutators, heap strings, spare capacity) with an RFC 8785 reference serializer',
         'every Unicode scalar value as one-character string and key (complete), every string of <=4 (5) characters over an 18-character class alphabet, plain and escaped strings and keys of every length up to 1100 (2100), values wider than 65,535 characters, values nested 129-300 levels, format specifications incl. the alternate flag (ignored or applied to the whole text), runs of 1-40 copies of one character of each class, generated nested values'),
 'C09': ('independent RFC 8785 implementation (UTF-16 key order; ECMAScript number rendering computed from the exact decimal expansion) compared with canonicalize + compact_print, also on values with a history',
         'numbers of 1-400 digits, deciding digits up to 1300 places away, exact midpoints between adjacent doubles, subnormals, named extreme doubles, layout thresholds, integers around 2^53/2^63/2^64; every ordered subset of <=4 keys of nine key pools (incl. ASCII keys of 7-9 and 15-17 bytes differing in one bit); keys of 65,534-131,074 UTF-16 units sharing their prefix; wide objects sorted except for a few trailing members; arrays of records; neighbouring objects with one key set in different orders; containers of one kind nested 1-300 deep; short spellings in the subnormal range, tiny values in plain notation; generated I-JSON values'),
 'C10': ('metamorphic monitors: idempotence, byte-identical canonical form under permutation / exact respelling / re-escaping / whitespace, preservation of shape and doubles, queryability + index invariant (hook) after canonicalization, canonicalize / edit / canonicalize',
         'generated I-JSON documents with 5 rewritings each, every permutation of the members of small objects, pairs of numerically equal spellings, documents nested 100-200 levels, wide nearly-sorted objects and arrays of records against shuffled or rotated copies, equal-valued members under every pair and triple of keys of each pool in every order, neighbouring number literals that resemble each other'),
 'C11': ('reference pre-order numbering oracle for every offset yielded by the mapped iterators / lookups (full iterator protocol), get_fragment, volume/count; TryFromJson error offsets with a wrong-kind value planted at every position; also under lenient options and in the units of sources declaring other lengths',
         'generated documents and every valid token sequence up to the bound; containers of 60-302 children; documents nested 100-260 levels; documents with unpaired surrogate escapes; 8 instantiations of the conversion traits (a wrong-kind number and a second value planted at every position, judged by a model of the traits), 18 built-in targets, the object-level conversion trait directly and through Box at every object offset, the iterator protocol on traverse(); byte inputs with raw and ill-formed sequences under every option record (whatever is accepted must have spans that read back as the fragments)'),
 'C12': ('reference lenient decoder (four option values) compared on acceptance, decoded text and code map; all six option-taking entry points',
         'every sequence of <=4 (6) string elements from 8 element kinds in 8 shapes x 4 option values, escape runs up to 72 with a pair / lone surrogate / raw control at every position, failing sources at every character of documents with surrogate escapes under every option value, every two-character escape next to a surrogate escape, plus the C01 families under every option value'),
 'C13': ('byte-for-byte comparison of print_with, of Print::fmt_with at a base depth, of the forwarding impls and of a user-defined container printing through the public generic helpers with a reference layout printer written from the documentation',
         '(value, option record) pairs as C04 with array/object fields different and thresholds from {w-1,w,w+1} or beyond any width, limits at usize::MAX, base depths up to 131,072, format specifications on the placeholder; presets must not break lines'),
 'C14': ('algebraic-law monitors on pairs/triples (Eq/Ord/PartialOrd/Hash coherence, the six operators, antisymmetry, transitivity), on objects with identical entries built through 10 different histories (index internals shown different through the hook), at every step of random histories, after clone_from',
         'generated pairs with near-copies (also at the bottom of 100-260 levels), all pairs and triples of a small exhaustive family and of an order family over keys where byte / code-point / UTF-16 order differ, all pairs and triples of a pool of ~100 number spellings (same number written differently, both signs of the neighbourhoods of 2^53 / 2^63 / 2^64), containers of 0-130 members next to short ones that lie between them (transitivity), containers of more than 65,536 members differing in one member beyond position 65,535, random related triples, containers of 1..130 members differing in one position, strings and keys of every length 0..40 differing in one byte or extended, clone_from over all pairs of a 341-object family'),
 'C15': ('normal-form oracle (recursively sorted entries) compared with unordered_eq / Unordered / as_unordered in both argument orders, on Value, Object, Meta and Vec<Meta>',
         'every ordered pair of the 4,369 objects with <=3 entries over 2 keys x 8 values (exhaustive), sampled pairs with <=4 entries (thorough), generated values against deep shuffles and single mutations, 2..130 duplicates of one key, wide objects with one repeated key, duplicate keys whose values nest permuted objects under arrays of arrays, operands with sort / canonicalize / removal / clone_from / grow-and-cut-back histories on either side'),
 'C16': ('round-trip and shape monitors relative to serde_json on instances of a derive-annotated type family; raw f32/f64 bit patterns, doubles with few significant bits and doubles with 1-9 significant decimal digits at every decimal exponent',
         '67 top-level shapes covering every serde data-model method the serializer implements (incl. tagged / untagged / flattened shapes with unit and float payloads, zero-length and field-less shapes, chains and trees up to 300 / 150 deep, variant names differing in case only, fields left out of the rendering when empty), integers at bounds, non-finite/subnormal floats, number-like strings and keys'),
 'C17': ('model oracle for Serialize (verbatim / integer re-rendering / duplicate collapse) and number-denotation oracle for the two Deserialize paths; known classes K1, K2, K5',
         'single numbers of every lexical class (incl. beyond the double range and doubles with few significant bits in three renderings) and nested values with and without duplicate keys, token-named keys at every position, depth 100-120, arrays and objects of 11,915-140,000 members, arrays of records; objects of 1-66 distinct keys in which each key in turn recurs at the end; values nested 127-400 levels Value to Value, arrays of 31-66 small integers around the byte range; deserialize_in_place'),
 'C18': ('round-trip monitors in both directions under catch_unwind; known classes K3, K4 decided by exact predicates',
         'serde_json values with all three number representations and extremes; json-syntax values of every number class incl. out-of-domain ones; nesting 100-300 with several children per level; containers of 65,537-200,001 members, large containers nested in large containers, arrays of records, arrays and objects whose neighbouring members are a long number literal and its prefixes, containers of 1-70 / 127-130 scalars with one nested member at every position'),
 'C19': ('generated programs: json! invocations emitted as Rust source, compiled against the current tree (all features) and executed; each compares the constructed value with the parse of the matching text',
         '8 x 150 (thorough 16 x 500) invocations: nesting, trailing commas, every literal kind, suffixed integers at bounds, random / sparse / f32-suffixed float literals, duplicate and expression keys, three delimiters, runs of k = 1..40 literals (also over five keys only); texts with raw or escaped non-ASCII characters; positions reported by every key lookup compared; literals of 127-1030 characters and of 8 / 64 KiB; parse_slice must agree with parse_str'),
 'C20': ('complete enumeration against a BTreeSet / double-ended-queue model',
         'all 64 sets x 5 constructions, 64x64 set pairs, 64x6 set/kind pairs both ways, 6x6 kind pairs, every next/next_back interleaving of length <=7, every sequence of <=3 calls among next/next_back/nth/nth_back with every Iterator / DoubleEndedIterator method after each prefix, all renderings incl. under format specifications; the kind reported by every failed TryFromJson conversion (25 target types x 13 documents)'),
}
checks = []
for p in props:
    i = p['id']
    tech, scope = T[i]
    checks.append({
        'property_id': i,
        'quick_cmd': f'./check {i} quick',
        'thorough_cmd': f'./check {i} thorough',
        'evidence_file': f'/verif/evidence/{i}.json',
        'replay_cmd_template': f'./check {i} --replay {{path}}',
        'engine': 'jsv',
        'level_claimed': {
            'category': 'exploration',
            'text': ('Runtime monitoring: held on the executions observed, not a proof. Workload: ' + scope +
                     ('. The finite domain is enumerated completely (exhaustive: true in the evidence).' if i == 'C20' else
                      '. Complete inside the stated bounds, sampling beyond them; the evidence file gives the measured counts of what the monitors saw.')),
            'design_ref': f'DESIGN.md section 6 ({i})',
        },
        'level_note': 'trusted base: the reference oracles under harness/src/oracle (small, written from the RFCs / the crate documentation, self-tested at every start), rustc/std' + (', serde_json with default features as the stated reference' if i in ('C16', 'C17', 'C18') else '') + (', rustc macro expansion' if i == 'C19' else ''),
        'technique': tech,
    })
m = {
    'version': 1,
    'setup_cmd': './check --setup',
    'hooks': {
        'guard': '--cfg json_syntax_verif',
        'enable': 'RUSTFLAGS="--cfg json_syntax_verif" (exported by ./check); the harness /verif/harness is a path dependant of /repo, so every check rebuilds the current working tree',
        'baseline_off_cmd': 'cd /repo && cargo test --workspace --no-fail-fast --offline',
        'source_commits': [hook],
        'add_only': True,
    },
    'engines': [{
        'name': 'jsv',
        'path': '/verif/harness',
        'serves_properties': [c['property_id'] for c in checks],
        'kind_free_text': 'Rust harness: reference oracles + monitors wrapped around the real library, run natively (release); thorough tier adds a dev-profile pass (debug assertions, overflow checks, library unoptimized) for every check but C19, Miri passes (C02 C06 C10 C14 C15) and AddressSanitizer passes (C02 C03 C06) on reduced workloads; C19 compiles and runs generated programs',
    }],
    'checks': checks,
    'notes': 'Technique family: runtime monitoring and sanitizers only. Exit 0 = held on everything observed (KNOWN-FINDING lines for listed findings), 1 = VIOLATION property=<id> replay=<path>, 2 = INCONCLUSIVE (build failure, harness failure, too little observed). Known findings: /verif/known-findings.txt. Seeded faults and which checks catch them: /verif/seeded/ and DESIGN.md section 13.',
    'not_applicable': [],
}
json.dump(m, open('/verif/MANIFEST.json', 'w'), indent=1)
print('written', len(checks), 'checks')
