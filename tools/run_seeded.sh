#!/bin/bash
# usage: tools/run_seeded.sh [tier] [ids...]   -- runs the check of each seeded fault's property with the fault applied to /repo
# (working tree only, restored afterwards) and appends the outcome to seeded/RESULTS.tsv
set -u
cd /verif
TIER="${1:-quick}"; shift || true
LIST="${*:-$(ls seeded | grep -E '^C[0-9]+-[0-9]+$')}"
for m in $LIST; do
  id=${m%%-*}
  start=$(date +%s)
  out=$(tools/with_patch.sh seeded/$m/patch.diff -- ./check $id $TIER 2>&1); code=$?
  end=$(date +%s)
  sig=$(echo "$out" | grep -E "^  violation \[" | head -1 | sed 's/^  violation \[\([^]]*\)\].*/\1/')
  echo -e "$m\t$TIER\texit=$code\t$((end-start))s\t$sig" | tee -a seeded/RESULTS.tsv
done
