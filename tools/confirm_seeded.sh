#!/bin/bash
# usage: tools/confirm_seeded.sh <srcdir with patchK.diff demoK.rs metaK.json> <ID> <K>
# Confirms a candidate seeded fault in a scratch worktree of /repo's HEAD (outside /repo and /verif):
#   patch applies; crate builds with default and all features; the pinned suite still passes with it;
#   the demonstration fails with it and passes without it.
# Prints one line: CONFIRMED / REJECTED <reason>.
set -u
SRC="$1"; ID="$2"; K="$3"
WT=/tmp/wt/confirm
export CARGO_NET_OFFLINE=true
if [ ! -d "$WT" ]; then git -C /repo worktree add -q --detach "$WT" HEAD || exit 3; cp /repo/Cargo.lock "$WT/"; fi
cd "$WT" || exit 3
git checkout -q --detach "$(git -C /repo rev-parse HEAD)" 2>/dev/null
git checkout -q -- . ; rm -f tests/demo_*.rs
PATCH="$SRC/patch$K.diff"; DEMO="$SRC/demo$K.rs"
FEAT=$(head -5 "$DEMO" | grep -o 'features: *[a-z_,]*' | sed 's/features: *//')
FARG=""; [ -n "$FEAT" ] && FARG="--features $FEAT"
if ! git apply --check "$PATCH" 2>/dev/null; then
  if ! git apply --3way "$PATCH" 2>/dev/null; then echo "REJECTED $ID/$K patch does not apply to HEAD"; git checkout -q -- .; exit 1; fi
  git reset -q
else
  git apply "$PATCH"
fi
git diff > "/tmp/wt/rebased-$ID-$K.diff"
if ! cargo build --offline -q 2>/dev/null; then echo "REJECTED $ID/$K does not build"; git checkout -q -- .; exit 1; fi
if ! cargo build --all-features --offline -q 2>/dev/null; then echo "REJECTED $ID/$K does not build with all features"; git checkout -q -- .; exit 1; fi
if ! cargo test --workspace --offline -q >/tmp/wt/suite.log 2>&1; then echo "REJECTED $ID/$K pinned suite fails with the patch"; git checkout -q -- .; exit 1; fi
cp "$DEMO" tests/demo_$K.rs
cargo test --offline -q $FARG --test demo_$K >/tmp/wt/demo_mut.log 2>&1; MUT=$?
git checkout -q -- src
cargo test --offline -q $FARG --test demo_$K >/tmp/wt/demo_base.log 2>&1; BASE=$?
rm -f tests/demo_$K.rs; git checkout -q -- .
if [ $MUT -ne 0 ] && [ $BASE -eq 0 ]; then echo "CONFIRMED $ID/$K features=[$FEAT]"; exit 0; fi
echo "REJECTED $ID/$K demo: with patch exit $MUT, without exit $BASE"; exit 1
