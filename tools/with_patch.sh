#!/bin/bash
# usage: tools/with_patch.sh [-R] <patch.diff> -- <command...>
# Applies the patch to /repo (working tree only), runs the command in /verif,
# and restores /repo afterwards whatever happens. Never commits.
set -u
REV=""
if [ "$1" = "-R" ]; then REV="-R"; shift; fi
PATCH="$(realpath "$1")"; shift; shift
if [ -n "$(git -C /repo status --porcelain --untracked-files=no)" ]; then echo "with_patch: /repo has uncommitted changes" >&2; exit 3; fi
if ! git -C /repo apply $REV "$PATCH"; then echo "with_patch: patch does not apply" >&2; exit 3; fi
trap 'git -C /repo checkout -- . ' EXIT
cd /verif && "$@"
