//! Workload generators: enumerators, grammar-based value/document generators,
//! number spellings, mutators. All randomness comes from `Rng`.

use crate::oracle::rfc8259::RVal;
use crate::rng::Rng;

/// Character alphabet of the bounded-exhaustive string sweeps (33 symbols).
pub const SIGMA_C: [&str; 33] = [
	"{", "}", "[", "]", ",", ":", "\"", "\\", " ", "\n", "0", "1", "-", "+", ".", "e", "E", "t", "r", "u", "f", "a",
	"l", "s", "n", "/", "b", "x", "\u{e9}", "\u{0}", "\u{1f}", "\u{1f600}", "\u{feff}",
];

/// Token alphabet (18 tokens).
pub const SIGMA_T: [&str; 18] = [
	"{", "}", "[", "]", ",", ":", "\"a\"", "\"b\"", "\"\"", "0", "1", "-1", "1.5", "1e2", "true", "false", "null", " ",
];

/// Calls `f` on every concatenation of exactly `len` symbols whose first
/// `prefix.len()` symbols are `prefix` (indices into `alphabet`).
pub fn for_each_seq(alphabet: &[&str], len: usize, prefix: &[usize], f: &mut dyn FnMut(&[u8], &[usize])) {
	assert!(prefix.len() <= len);
	let k = alphabet.len();
	let mut idx: Vec<usize> = vec![0; len];
	idx[..prefix.len()].copy_from_slice(prefix);
	let mut buf: Vec<u8> = Vec::with_capacity(len * 8);
	let mut offs: Vec<usize> = Vec::with_capacity(len + 1);
	loop {
		buf.clear();
		offs.clear();
		for &i in &idx {
			offs.push(buf.len());
			buf.extend_from_slice(alphabet[i].as_bytes());
		}
		f(&buf, &idx);
		// increment the free positions
		let mut p = len;
		loop {
			if p == prefix.len() {
				return;
			}
			p -= 1;
			idx[p] += 1;
			if idx[p] < k {
				break;
			}
			idx[p] = 0;
		}
	}
}

/// Pools of characters used for generated strings and keys.
pub const CHAR_POOL: [char; 44] = [
	'a', 'b', 'k', 'z', 'A', '0', '9', ' ', '_', '-', '"', '\\', '/', '\u{0}', '\u{1}', '\u{8}', '\u{9}', '\u{a}',
	'\u{b}', '\u{c}', '\u{d}', '\u{1f}', '\u{7f}', '\u{80}', '\u{e9}', '\u{7ff}', '\u{800}', '\u{2028}', '\u{2029}',
	'\u{d7ff}', '\u{e000}', '\u{fdd0}', '\u{fffd}', '\u{fffe}', '\u{ffff}', '\u{10000}', '\u{1f600}', '\u{10ffff}',
	'\u{301}', '\u{feff}', '{', '[', ',', ':',
];

pub fn gen_char(rng: &mut Rng) -> char {
	match rng.below(10) {
		0..=4 => *rng.pick(&CHAR_POOL),
		5..=6 => (b'a' + rng.below(26) as u8) as char,
		7 => char::from_u32(rng.below(0x80) as u32).unwrap(),
		8 => {
			// any BMP scalar
			loop {
				let u = rng.below(0x10000) as u32;
				if let Some(c) = char::from_u32(u) {
					break c;
				}
			}
		}
		_ => char::from_u32(0x10000 + rng.below(0x100000) as u32).unwrap(),
	}
}

/// String lengths straddle the 16-byte inline capacity of the small strings.
pub fn gen_string(rng: &mut Rng) -> String {
	let target = match rng.below(20) {
		0..=2 => 0,
		3..=8 => rng.range(1, 4),
		9..=14 => rng.range(13, 19),
		15..=17 => rng.range(5, 12),
		18 => rng.range(30, 50),
		_ => rng.range(100, 300),
	};
	let mut s = String::new();
	let ascii_only = rng.chance(1, 3);
	while s.len() < target {
		let c = if ascii_only {
			(b'a' + rng.below(26) as u8) as char
		} else {
			gen_char(rng)
		};
		s.push(c);
	}
	s
}

/// Keys: small universe so that duplicates are frequent.
pub fn gen_key(rng: &mut Rng) -> String {
	match rng.below(10) {
		0 => String::new(),
		1..=4 => ["a", "b", "k", "l", "key", "\u{e9}", "a\u{0}", "sixteen-bytes-key", "seventeen-byte-key"][rng.below(9)]
			.to_string(),
		5..=6 => format!("k{}", rng.below(6)),
		_ => gen_string(rng),
	}
}

fn digits(rng: &mut Rng, n: usize, first_nonzero: bool, out: &mut String) {
	for i in 0..n {
		let d = if i == 0 && first_nonzero {
			1 + rng.below(9)
		} else {
			rng.below(10)
		};
		out.push((b'0' + d as u8) as char);
	}
}

/// Any spelling of the RFC 8259 number grammar.
pub fn gen_number(rng: &mut Rng) -> String {
	let mut s = String::new();
	if rng.chance(1, 3) {
		s.push('-')
	}
	// integer part
	match rng.below(10) {
		0..=2 => s.push('0'),
		3..=7 => {
			let n = rng.range(1, 6);
			digits(rng, n, true, &mut s)
		}
		8 => {
			let n = rng.range(14, 25);
			digits(rng, n, true, &mut s)
		}
		_ => {
			let n = rng.range(30, 400);
			digits(rng, n, true, &mut s)
		}
	}
	if rng.chance(2, 5) {
		s.push('.');
		let n = match rng.below(6) {
			0..=3 => rng.range(1, 5),
			4 => rng.range(12, 22),
			_ => rng.range(30, 120),
		};
		digits(rng, n, false, &mut s)
	}
	if rng.chance(1, 3) {
		s.push(if rng.chance(1, 2) { 'e' } else { 'E' });
		match rng.below(3) {
			0 => s.push('+'),
			1 => s.push('-'),
			_ => (),
		}
		let n = match rng.below(8) {
			0..=5 => rng.range(1, 2),
			6 => 3,
			_ => rng.range(4, 8),
		};
		digits(rng, n, false, &mut s)
	}
	s
}

#[derive(Clone, Copy)]
pub struct ValueParams {
	pub max_depth: usize,
	pub max_width: usize,
	pub allow_dup_keys: bool,
	/// Restrict numbers to spellings produced by `number` (None = any spelling).
	pub number: Option<fn(&mut Rng) -> String>,
}

impl Default for ValueParams {
	fn default() -> Self {
		ValueParams {
			max_depth: 5,
			max_width: 6,
			allow_dup_keys: true,
			number: None,
		}
	}
}

pub fn gen_value(rng: &mut Rng, p: &ValueParams, depth: usize) -> RVal {
	let leaf_bias = if depth >= p.max_depth { 10 } else { 4 + depth };
	if rng.below(10) < leaf_bias.min(10) && depth > 0 || depth >= p.max_depth {
		gen_leaf(rng, p)
	} else {
		match rng.below(2) {
			0 => {
				let n = gen_width(rng, p);
				RVal::Arr((0..n).map(|_| gen_value(rng, p, depth + 1)).collect())
			}
			_ => {
				let n = gen_width(rng, p);
				let mut entries: Vec<(String, RVal)> = Vec::with_capacity(n);
				for _ in 0..n {
					let mut k = gen_key(rng);
					if !p.allow_dup_keys {
						let mut tries = 0;
						while entries.iter().any(|(e, _)| *e == k) {
							k = if tries < 3 { gen_key(rng) } else { format!("{}#{}", k, entries.len()) };
							tries += 1;
						}
					} else if !entries.is_empty() && rng.chance(1, 5) {
						k = entries[rng.below(entries.len())].0.clone();
					}
					let v = gen_value(rng, p, depth + 1);
					entries.push((k, v));
				}
				RVal::Obj(entries)
			}
		}
	}
}

fn gen_width(rng: &mut Rng, p: &ValueParams) -> usize {
	match rng.below(10) {
		0..=1 => 0,
		2..=3 => 1,
		4..=8 => rng.range(2, p.max_width.max(2)),
		_ => rng.range(p.max_width, p.max_width * 3),
	}
}

pub fn gen_leaf(rng: &mut Rng, p: &ValueParams) -> RVal {
	match rng.below(12) {
		0 => RVal::Null,
		1 => RVal::Bool(true),
		2 => RVal::Bool(false),
		3..=6 => RVal::Num(match p.number {
			Some(f) => f(rng),
			None => gen_number(rng),
		}),
		7..=9 => RVal::Str(gen_string(rng)),
		10 => RVal::Arr(vec![]),
		_ => RVal::Obj(vec![]),
	}
}

/// How a document is written out.
#[derive(Clone, Copy)]
pub struct WriteStyle {
	/// 0 = none, 1 = some, 2 = heavy
	pub whitespace: u8,
	/// escape characters that do not need it (0 = never, 1 = sometimes)
	pub escapes: u8,
}

const WS: [&str; 4] = [" ", "\t", "\n", "\r"];

fn ws(rng: &mut Rng, style: &WriteStyle, out: &mut String) {
	let n = match style.whitespace {
		0 => 0,
		1 => {
			if rng.chance(1, 3) {
				rng.range(1, 2)
			} else {
				0
			}
		}
		_ => rng.below(4),
	};
	for _ in 0..n {
		out.push_str(WS[rng.below(WS.len())]);
	}
}

fn hex4(u: u32, upper: bool, out: &mut String) {
	let s = if upper { format!("{:04X}", u) } else { format!("{:04x}", u) };
	out.push('\\');
	out.push('u');
	out.push_str(&s);
}

fn hex4_mixed(rng: &mut Rng, u: u32, out: &mut String) {
	out.push('\\');
	out.push('u');
	for ch in format!("{:04x}", u).chars() {
		if rng.chance(1, 2) {
			out.push(ch.to_ascii_uppercase())
		} else {
			out.push(ch)
		}
	}
}

/// Writes a string literal denoting exactly `s`, choosing among all legal
/// spellings of each character.
pub fn write_string(rng: &mut Rng, s: &str, style: &WriteStyle, out: &mut String) {
	out.push('"');
	for c in s.chars() {
		let u = c as u32;
		let must_escape = u < 0x20 || c == '"' || c == '\\';
		let short = match c {
			'"' => Some("\\\""),
			'\\' => Some("\\\\"),
			'/' => Some("\\/"),
			'\u{8}' => Some("\\b"),
			'\u{c}' => Some("\\f"),
			'\n' => Some("\\n"),
			'\r' => Some("\\r"),
			'\t' => Some("\\t"),
			_ => None,
		};
		let escape = must_escape || (style.escapes > 0 && rng.chance(1, 4));
		if !escape {
			out.push(c);
			continue;
		}
		match short {
			Some(sh) if rng.chance(2, 3) => out.push_str(sh),
			_ => {
				if u >= 0x10000 {
					let v = u - 0x10000;
					let hi = 0xD800 + (v >> 10);
					let lo = 0xDC00 + (v & 0x3FF);
					hex4_mixed(rng, hi, out);
					hex4_mixed(rng, lo, out);
				} else {
					match rng.below(3) {
						0 => hex4(u, false, out),
						1 => hex4(u, true, out),
						_ => hex4_mixed(rng, u, out),
					}
				}
			}
		}
	}
	out.push('"');
}

/// Writes a document whose abstract content is exactly `v`.
pub fn write_doc(rng: &mut Rng, v: &RVal, style: &WriteStyle) -> String {
	let mut out = String::new();
	ws(rng, style, &mut out);
	write_value(rng, v, style, &mut out);
	ws(rng, style, &mut out);
	out
}

pub fn write_value(rng: &mut Rng, v: &RVal, style: &WriteStyle, out: &mut String) {
	match v {
		RVal::Null => out.push_str("null"),
		RVal::Bool(true) => out.push_str("true"),
		RVal::Bool(false) => out.push_str("false"),
		RVal::Num(n) => out.push_str(n),
		RVal::Str(s) => write_string(rng, s, style, out),
		RVal::Arr(a) => {
			out.push('[');
			ws(rng, style, out);
			for (i, x) in a.iter().enumerate() {
				if i > 0 {
					out.push(',');
					ws(rng, style, out);
				}
				write_value(rng, x, style, out);
				ws(rng, style, out);
			}
			out.push(']');
		}
		RVal::Obj(o) => {
			out.push('{');
			ws(rng, style, out);
			for (i, (k, x)) in o.iter().enumerate() {
				if i > 0 {
					out.push(',');
					ws(rng, style, out);
				}
				write_string(rng, k, style, out);
				ws(rng, style, out);
				out.push(':');
				ws(rng, style, out);
				write_value(rng, x, style, out);
				ws(rng, style, out);
			}
			out.push('}');
		}
	}
}

/// Bytes that are interesting to insert/replace when damaging a document.
pub const INTERESTING_BYTES: [u8; 40] = [
	b'{', b'}', b'[', b']', b',', b':', b'"', b'\\', b' ', b'\t', b'\n', b'\r', b'0', b'1', b'9', b'-', b'+', b'.',
	b'e', b'E', b't', b'f', b'n', b'u', b'a', b'/', b'x', 0x00, 0x1f, 0x7f, 0x80, 0xbf, 0xc0, 0xc2, 0xe0, 0xed, 0xf0,
	0xf4, 0xf5, 0xff,
];

/// Applies one random byte-level edit.
pub fn mutate_bytes(rng: &mut Rng, input: &[u8]) -> Vec<u8> {
	let mut v = input.to_vec();
	if v.is_empty() {
		v.push(*rng.pick(&INTERESTING_BYTES));
		return v;
	}
	match rng.below(6) {
		0 => {
			let i = rng.below(v.len());
			v.remove(i);
		}
		1 => {
			let i = rng.below(v.len() + 1);
			v.insert(i, *rng.pick(&INTERESTING_BYTES));
		}
		2 => {
			let i = rng.below(v.len());
			v[i] = *rng.pick(&INTERESTING_BYTES);
		}
		3 => {
			let i = rng.below(v.len() + 1);
			v.truncate(i);
		}
		4 => {
			// duplicate a slice
			let i = rng.below(v.len());
			let j = (i + rng.range(1, 6)).min(v.len());
			let s: Vec<u8> = v[i..j].to_vec();
			let at = rng.below(v.len() + 1);
			for (k, b) in s.into_iter().enumerate() {
				v.insert(at + k, b)
			}
		}
		_ => {
			// swap two bytes
			let i = rng.below(v.len());
			let j = rng.below(v.len());
			v.swap(i, j);
		}
	}
	v
}

/// Loads the JSONTestSuite corpus shipped with the repository.
pub fn load_corpus(repo: &std::path::Path) -> Vec<(String, Vec<u8>)> {
	let mut out = Vec::new();
	let dir = repo.join("tests/inputs");
	if let Ok(rd) = std::fs::read_dir(&dir) {
		for e in rd.flatten() {
			let name = e.file_name().to_string_lossy().to_string();
			if name.ends_with(".json") {
				if let Ok(b) = std::fs::read(e.path()) {
					out.push((name, b));
				}
			}
		}
	}
	out.sort();
	out
}

/// Shapes of deeply nested documents.
#[derive(Clone, Copy, Debug, PartialEq, Eq)]
pub enum DeepKind {
	Arrays,
	Objects,
	Mixed,
	WideDeep,
	UnclosedArrays,
	UnclosedObjects,
	UnclosedMixed,
	ErrorInMiddle,
	HalfClosed,
	/// `{"a":<deep closed array>,"b":x` : error while parsing the value of a later entry
	DeepSiblingThenBadEntryValue,
	/// `[<deep closed array>,x` : error while parsing a later item
	DeepSiblingThenBadItem,
	/// `{"a":<deep closed object>,x` : error at the next key
	DeepSiblingThenBadKey,
	/// `{"a":<deep closed array> x` : error at the separator
	DeepSiblingThenBadSeparator,
	/// `[{"a":<deep>,"b":[<deep>,{"c":<deep>` : several completed deep siblings, then end of input
	SeveralDeepSiblingsUnclosed,
	// "flat" documents: nesting depth <= 2, one lexical element repeated `depth` times
	/// `[1<blanks>]`
	FlatBlanksAfterItem,
	/// `{"a":1<blanks>}`
	FlatBlanksAfterEntry,
	/// blanks in every gap of `[ 1 , { "a" : [ ] , "b" : null } ]`
	FlatBlanksEverywhere,
	/// `[1<blanks>x`
	FlatBlanksThenBad,
	/// a string of unpaired high-surrogate escapes (accepted under the lenient options only)
	FlatLoneHighSurrogates,
	/// a string of lone low-surrogate escapes followed by pairs
	FlatLowSurrogatesAndPairs,
	/// a string and a key made of short and unicode escapes
	FlatEscapes,
	/// a long raw string, also as a key
	FlatLongStringAndKey,
	/// a number with long digit runs in all three parts
	FlatLongNumber,
	/// `[0,0,...]`
	FlatItems,
	/// `{"a":0,"a":0,...}`
	FlatDuplicateEntries,
	/// `[true,false,null,"",[],{},...` never closed
	FlatItemsUnclosed,
}

pub const DEEP_KINDS: [DeepKind; 26] = [
	DeepKind::Arrays,
	DeepKind::Objects,
	DeepKind::Mixed,
	DeepKind::WideDeep,
	DeepKind::UnclosedArrays,
	DeepKind::UnclosedObjects,
	DeepKind::UnclosedMixed,
	DeepKind::ErrorInMiddle,
	DeepKind::HalfClosed,
	DeepKind::DeepSiblingThenBadEntryValue,
	DeepKind::DeepSiblingThenBadItem,
	DeepKind::DeepSiblingThenBadKey,
	DeepKind::DeepSiblingThenBadSeparator,
	DeepKind::SeveralDeepSiblingsUnclosed,
	DeepKind::FlatBlanksAfterItem,
	DeepKind::FlatBlanksAfterEntry,
	DeepKind::FlatBlanksEverywhere,
	DeepKind::FlatBlanksThenBad,
	DeepKind::FlatLoneHighSurrogates,
	DeepKind::FlatLowSurrogatesAndPairs,
	DeepKind::FlatEscapes,
	DeepKind::FlatLongStringAndKey,
	DeepKind::FlatLongNumber,
	DeepKind::FlatItems,
	DeepKind::FlatDuplicateEntries,
	DeepKind::FlatItemsUnclosed,
];

/// A document nested `depth` levels deep.
pub fn deep_doc(kind: DeepKind, depth: usize) -> Vec<u8> {
	let mut v: Vec<u8> = Vec::with_capacity(depth * 8 + 16);
	let rep = |v: &mut Vec<u8>, s: &[u8], n: usize| {
		for _ in 0..n {
			v.extend_from_slice(s)
		}
	};
	match kind {
		DeepKind::Arrays => {
			rep(&mut v, b"[", depth);
			rep(&mut v, b"]", depth);
		}
		DeepKind::Objects => {
			rep(&mut v, b"{\"a\":", depth);
			v.extend_from_slice(b"1");
			rep(&mut v, b"}", depth);
		}
		DeepKind::Mixed => {
			rep(&mut v, b"[{\"a\":", depth / 2);
			v.extend_from_slice(b"null");
			rep(&mut v, b"}]", depth / 2);
		}
		DeepKind::WideDeep => {
			rep(&mut v, b"[1,\"x\",{\"k\":", depth / 2);
			v.extend_from_slice(b"[]");
			rep(&mut v, b"},2]", depth / 2);
		}
		DeepKind::UnclosedArrays => rep(&mut v, b"[", depth),
		DeepKind::UnclosedObjects => rep(&mut v, b"{\"a\":", depth),
		DeepKind::UnclosedMixed => rep(&mut v, b"[{\"a\":", depth / 2),
		DeepKind::ErrorInMiddle => {
			rep(&mut v, b"[", depth);
			v.extend_from_slice(b"x");
			rep(&mut v, b"]", depth);
		}
		DeepKind::HalfClosed => {
			rep(&mut v, b"[", depth);
			rep(&mut v, b"]", depth / 2);
		}
		DeepKind::DeepSiblingThenBadEntryValue => {
			v.extend_from_slice(b"{\"a\":");
			rep(&mut v, b"[", depth);
			rep(&mut v, b"]", depth);
			v.extend_from_slice(b",\"b\":x");
		}
		DeepKind::DeepSiblingThenBadItem => {
			v.extend_from_slice(b"[");
			rep(&mut v, b"[", depth);
			rep(&mut v, b"]", depth);
			v.extend_from_slice(b",x");
		}
		DeepKind::DeepSiblingThenBadKey => {
			v.extend_from_slice(b"{\"a\":");
			rep(&mut v, b"{\"k\":", depth);
			v.extend_from_slice(b"1");
			rep(&mut v, b"}", depth);
			v.extend_from_slice(b",x");
		}
		DeepKind::DeepSiblingThenBadSeparator => {
			v.extend_from_slice(b"{\"a\":");
			rep(&mut v, b"[", depth);
			rep(&mut v, b"]", depth);
			v.extend_from_slice(b" x");
		}
		DeepKind::SeveralDeepSiblingsUnclosed => {
			let d = depth / 3;
			v.extend_from_slice(b"[{\"a\":");
			rep(&mut v, b"[", d);
			rep(&mut v, b"]", d);
			v.extend_from_slice(b",\"b\":[");
			rep(&mut v, b"{\"k\":", d);
			v.extend_from_slice(b"null");
			rep(&mut v, b"}", d);
			v.extend_from_slice(b",{\"c\":");
			rep(&mut v, b"[", d);
			rep(&mut v, b"]", d);
		}
		DeepKind::FlatBlanksAfterItem => {
			v.extend_from_slice(b"[1");
			rep(&mut v, b" ", depth);
			v.extend_from_slice(b"]");
		}
		DeepKind::FlatBlanksAfterEntry => {
			v.extend_from_slice(b"{\"a\":1");
			rep(&mut v, b"\n\t", depth / 2);
			v.extend_from_slice(b"}");
		}
		DeepKind::FlatBlanksEverywhere => {
			let n = depth / 12 + 1;
			for tok in ["[", "1", ",", "{", "\"a\"", ":", "[", "]", ",", "\"b\"", ":", "null", "}", "]"] {
				rep(&mut v, b" \r", n / 2 + 1);
				v.extend_from_slice(tok.as_bytes());
			}
			rep(&mut v, b"\n", n);
		}
		DeepKind::FlatBlanksThenBad => {
			v.extend_from_slice(b"[1");
			rep(&mut v, b" ", depth);
			v.extend_from_slice(b"x");
		}
		DeepKind::FlatLoneHighSurrogates => {
			v.extend_from_slice(b"[\"");
			rep(&mut v, b"\\ud800", depth);
			v.extend_from_slice(b"\"]");
		}
		DeepKind::FlatLowSurrogatesAndPairs => {
			v.extend_from_slice(b"{\"");
			rep(&mut v, b"\\uDC00", depth / 2);
			rep(&mut v, b"\\uD83D\\uDE00", depth / 2);
			v.extend_from_slice(b"\":0}");
		}
		DeepKind::FlatEscapes => {
			v.extend_from_slice(b"{\"");
			rep(&mut v, b"\\n\\u00e9\\\\\\/", depth / 4);
			v.extend_from_slice(b"\":\"");
			rep(&mut v, b"\\t\\uD83D\\uDE00\\\"", depth / 4);
			v.extend_from_slice(b"\"}");
		}
		DeepKind::FlatLongStringAndKey => {
			v.extend_from_slice(b"{\"");
			rep(&mut v, "k\u{e9}".as_bytes(), depth / 2);
			v.extend_from_slice(b"\":\"");
			rep(&mut v, "v\u{1f600}".as_bytes(), depth / 2);
			v.extend_from_slice(b"\"}");
		}
		DeepKind::FlatLongNumber => {
			// exactly `depth` digits in each of the three parts
			let digits = |v: &mut Vec<u8>, pair: &[u8; 2]| {
				for j in 0..depth.max(1) {
					v.push(pair[j % 2]);
				}
			};
			v.extend_from_slice(b"[-");
			digits(&mut v, b"12");
			v.extend_from_slice(b".");
			digits(&mut v, b"05");
			v.extend_from_slice(b"E+");
			digits(&mut v, b"90");
			v.extend_from_slice(b"]");
		}
		DeepKind::FlatItems => {
			v.extend_from_slice(b"[0");
			rep(&mut v, b",0", depth);
			v.extend_from_slice(b"]");
		}
		DeepKind::FlatDuplicateEntries => {
			v.extend_from_slice(b"{\"a\":0");
			rep(&mut v, b",\"a\":0", depth);
			v.extend_from_slice(b"}");
		}
		DeepKind::FlatItemsUnclosed => {
			v.extend_from_slice(b"[");
			rep(&mut v, b"true,false,null,\"\",[],{},", depth / 6 + 1);
		}
	}
	v
}

/// An array of records: objects sharing a key sequence (in the same order), some
/// with additional trailing members, some cut short, some empty - the shape of
/// tabular data with optional fields. Values are small integers and strings.
pub fn gen_records(rng: &mut Rng) -> crate::oracle::rfc8259::RVal {
	use crate::oracle::rfc8259::RVal;
	let width = 1 + rng.below(12);
	let keys: Vec<String> = (0..width + 4).map(|j| if rng.chance(1, 6) { format!("cl\u{e9}{}", j) } else { format!("f{:02}", j) }).collect();
	let n = [2usize, 3, 15, 16, 17, 24, 40][rng.below(7)];
	let mut items = Vec::with_capacity(n);
	for i in 0..n {
		let len = match rng.below(8) {
			0 => 0,
			1 => width.saturating_sub(1 + rng.below(2)),
			2 => width + 1 + rng.below(3),
			_ => width,
		};
		let rec: Vec<(String, RVal)> = (0..len.min(keys.len())).map(|j| (keys[j].clone(), if (i + j) % 3 == 0 { RVal::Str(format!("v{}", i)) } else { RVal::Num((i * 31 + j).to_string()) })).collect();
		items.push(RVal::Obj(rec));
	}
	if rng.chance(1, 4) {
		items.insert(rng.below(items.len()), RVal::Num("7".into()));
	}
	RVal::Arr(items)
}
