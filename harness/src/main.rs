//! `jsv <ID> --tier quick|thorough [--seed N] [--replay FILE] [--san] [--shard i/n]`
//!
//! Runtime monitors for the properties C01..C20 of json-syntax.

mod check;
mod gen;
mod monitor;
mod oracle;
mod real;
mod rng;

use monitor::{Config, Tier};
use std::path::PathBuf;

fn main() {
	let args: Vec<String> = std::env::args().collect();
	if args.len() < 2 {
		eprintln!("usage: jsv <ID> --tier quick|thorough [--seed N] [--replay FILE] [--san] [--shard i/n] [--threads N] [--scale X]");
		std::process::exit(2);
	}
	let id = args[1].clone();
	if id == "--build-only" {
		// used by ./check to compile an instrumented build once before starting parallel processes
		return;
	}
	if id == "C03-child" {
		monitor::install_panic_hook();
		std::process::exit(check::c03::child(&args[2..]));
	}
	let _ = monitor::CURRENT_ID.set(id.clone());
	let mut cfg = Config {
		tier: Tier::Quick,
		seed: std::env::var("VERIF_SEED").ok().and_then(|s| s.parse().ok()).unwrap_or(20260927),
		san: false,
		shard: (0, 1),
		threads: std::thread::available_parallelism().map(|n| n.get()).unwrap_or(4),
		verif_dir: PathBuf::from(std::env::var("JSV_VERIF_DIR").unwrap_or_else(|_| "/verif".into())),
		repo_dir: PathBuf::from(std::env::var("JSV_REPO_DIR").unwrap_or_else(|_| "/repo".into())),
		scale: 1.0,
		san_div: 2000.0,
	};
	if let Ok(t) = std::env::var("VERIF_TIER") {
		if t == "thorough" {
			cfg.tier = Tier::Thorough
		}
	}
	let mut replay: Option<PathBuf> = None;
	let mut i = 2;
	while i < args.len() {
		match args[i].as_str() {
			"--tier" => {
				i += 1;
				cfg.tier = if args.get(i).map(|s| s.as_str()) == Some("thorough") { Tier::Thorough } else { Tier::Quick };
			}
			"--seed" => {
				i += 1;
				cfg.seed = args.get(i).and_then(|s| s.parse().ok()).unwrap_or(cfg.seed);
			}
			"--replay" => {
				i += 1;
				replay = args.get(i).map(PathBuf::from);
			}
			"--san" => cfg.san = true,
			"--san-div" => {
				i += 1;
				cfg.san_div = args.get(i).and_then(|s| s.parse().ok()).unwrap_or(2000.0);
			}
			"--threads" => {
				i += 1;
				cfg.threads = args.get(i).and_then(|s| s.parse().ok()).unwrap_or(cfg.threads);
			}
			"--scale" => {
				i += 1;
				cfg.scale = args.get(i).and_then(|s| s.parse().ok()).unwrap_or(1.0);
			}
			"--shard" => {
				i += 1;
				if let Some(s) = args.get(i) {
					let mut it = s.split('/');
					let a = it.next().and_then(|x| x.parse().ok()).unwrap_or(0);
					let b = it.next().and_then(|x| x.parse().ok()).unwrap_or(1);
					cfg.shard = (a, b);
				}
			}
			other => {
				eprintln!("unknown argument {}", other);
				std::process::exit(2);
			}
		}
		i += 1;
	}
	if cfg.san {
		cfg.threads = cfg.threads.min(if cfg!(miri) { 1 } else { 8 });
	}
	let _ = monitor::RUN_INFO.set((cfg.verif_dir.clone(), cfg.seed, cfg.tier.name().to_string(), cfg.san || replay.is_some()));
	monitor::install_panic_hook();
	let code = match replay {
		Some(p) => check::replay(&id, &cfg, &p),
		None => check::run(&id, &cfg),
	};
	std::process::exit(code);
}
