//! Small deterministic PRNG (xorshift64*), seeded from VERIF_SEED.

#[derive(Clone)]
pub struct Rng(u64);

impl Rng {
	pub fn new(seed: u64) -> Self {
		// splitmix to avoid weak seeds (0, small integers).
		let mut z = seed.wrapping_add(0x9E37_79B9_7F4A_7C15);
		z = (z ^ (z >> 30)).wrapping_mul(0xBF58_476D_1CE4_E5B9);
		z = (z ^ (z >> 27)).wrapping_mul(0x94D0_49BB_1331_11EB);
		z ^= z >> 31;
		Rng(if z == 0 { 0x1234_5678_9ABC_DEF1 } else { z })
	}

	/// Derives an independent stream (for shards / sub-generators).
	pub fn fork(&self, stream: u64) -> Rng {
		Rng::new(self.0 ^ stream.wrapping_mul(0xD6E8_FEB8_6659_FD93).rotate_left(17))
	}

	pub fn next_u64(&mut self) -> u64 {
		let mut x = self.0;
		x ^= x >> 12;
		x ^= x << 25;
		x ^= x >> 27;
		self.0 = x;
		x.wrapping_mul(0x2545_F491_4F6C_DD1D)
	}

	pub fn below(&mut self, n: usize) -> usize {
		if n == 0 {
			0
		} else {
			(self.next_u64() % n as u64) as usize
		}
	}

	/// Uniform in lo..=hi.
	pub fn range(&mut self, lo: usize, hi: usize) -> usize {
		lo + self.below(hi - lo + 1)
	}

	pub fn chance(&mut self, num: usize, den: usize) -> bool {
		self.below(den) < num
	}

	pub fn pick<'a, T>(&mut self, items: &'a [T]) -> &'a T {
		&items[self.below(items.len())]
	}

	pub fn shuffle<T>(&mut self, items: &mut [T]) {
		for i in (1..items.len()).rev() {
			let j = self.below(i + 1);
			items.swap(i, j);
		}
	}

	pub fn state(&self) -> u64 {
		self.0
	}
}
