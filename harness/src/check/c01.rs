//! C01 — strict acceptance <=> RFC 8259 (+ well-formed UTF-8); all entry points agree.

use super::parsefam::{self as pf, Flags};
use crate::gen::{self, DEEP_KINDS};
use crate::monitor::{conclude, conv::drop_value_iter, guard, Config, EvidenceMeta, Report};
use crate::oracle::rfc8259::{selftest_utf8, Opts, Reader, N_CLASSES, N_STATES};
use crate::real;
use json_syntax::{Parse, Value};
use serde_json::json;
use std::time::Instant;

pub fn run(cfg: &Config) -> i32 {
	let started = Instant::now();
	let thorough = cfg.tier == crate::monitor::Tier::Thorough;
	let flags = Flags {
		c01: true,
		..Default::default()
	};
	let mut total = Report::new();
	let mut cov = vec![0u8; N_STATES * (N_CLASSES + 1)];
	let mut add = |total: &mut Report, (r, c): (Report, Vec<u8>)| {
		total.merge(r);
		for (a, b) in cov.iter_mut().zip(&c) {
			*a |= *b
		}
	};

	match selftest_utf8() {
		Ok(n) => total.count("selftest_utf8_validator_vs_std", n as u64),
		Err(m) => total.inconclusive.push(format!("oracle self-test failed: {}", m)),
	}
	match pf::selftest_reference(cfg) {
		Ok(n) => total.count("selftest_reference_vs_corpus_labels", n as u64),
		Err(m) => total.inconclusive.push(format!("oracle self-test failed: {}", m)),
	}

	if cfg.san {
		add(&mut total, pf::fam_sigma(cfg, flags, "sigma-c-strings", &gen::SIGMA_C, 3));
		add(&mut total, pf::fam_generated(cfg, flags, cfg.budget(300_000, 10_000_000), true));
	} else {
		add(&mut total, pf::fam_sigma(cfg, flags, "sigma-c-strings", &gen::SIGMA_C, if thorough { 6 } else { 5 }));
		add(&mut total, pf::fam_sigma(cfg, flags, "sigma-t-token-sequences", &gen::SIGMA_T, if thorough { 7 } else { 5 }));
		add(&mut total, pf::fam_lexical(cfg, flags));
		add(&mut total, pf::fam_bytes(cfg, flags, thorough));
		add(&mut total, pf::fam_corpus(cfg, flags, thorough));
		add(&mut total, pf::fam_generated(cfg, flags, cfg.budget(150_000, 5_000_000), false));
		add(&mut total, pf::fam_generated(cfg, flags, cfg.budget(300_000, 10_000_000), true));
		add(&mut total, pf::fam_surrogates(cfg, flags, if thorough { 5 } else { 3 }));
		add(&mut total, pf::fam_valid_token_docs(cfg, flags, if thorough { 8 } else { 7 }));
		add(&mut total, pf::fam_unicode_sweep(cfg, flags));
		add(&mut total, pf::fam_block_boundaries(cfg, flags));
		add(&mut total, pf::fam_long_strings(cfg, flags, if cfg.san { 300 } else { 2300 }));
		add(&mut total, pf::fam_long_lexemes(cfg, flags, if cfg.san { 200 } else { 1200 }));
		add(&mut total, pf::fam_escape_runs(cfg, flags, if cfg.san { 40 } else { 72 }));
		add(&mut total, pf::fam_nesting_patterns(cfg, flags, if cfg.san { 70 } else { 200 }));
		add(&mut total, pf::fam_typed_impls(cfg, flags, if cfg.san { 3 } else { cfg.tier.pick(5, 6) as usize }));
		deep(cfg, &mut total, thorough);
	}

	let with = cov.iter().filter(|x| **x & 1 != 0).count();
	let stuck = cov.iter().filter(|x| **x & 2 != 0).count();
	let extra = json!({
		"reference_automaton_pairs_seen_with_transition": with,
		"reference_automaton_pairs_seen_stuck": stuck,
		"reference_automaton_pairs_possible": N_STATES * (N_CLASSES + 1),
		"explanation_pairs": "pairs (lexical state of the reference automaton, character class) the inputs of this run drove the reference through; classes = 128 ASCII codes, rest of BMP, supplementary planes, end of input",
	});
	let out = conclude(
		cfg,
		EvidenceMeta {
			id: "C01",
			rule: "inputs are enumerated (every string over the 33-symbol character alphabet and the 18-token alphabet up to the length bound, every one-character continuation of every viable lexical prefix, every byte string up to 3 bytes at three placements, every truncation / single-byte edit of the corpus, every valid document up to 7-8 tokens) or generated from the seed (grammar-based documents, valid and damaged; deep documents); a case is non-trivial when it is non-empty; enumerated cases are distinct by construction within a family, generated ones are counted through a hash set",
			exhaustive: false,
			assumptions: vec![
				"the reference recognizer (harness/src/oracle/rfc8259.rs) is a faithful reading of RFC 8259 and Unicode table 3-7; it is self-tested against std::str::from_utf8 and the y_/n_ labels of the corpus at every start".into(),
				"rustc/std".into(),
			],
			extra,
		},
		total,
		started,
		if cfg.san { 100 } else { 1_000_000 },
	);
	out.exit
}

/// Deep documents: the closed ones must be accepted, the others rejected
/// (a nesting limit would change the accepted language).
fn deep(cfg: &Config, total: &mut Report, thorough: bool) {
	let depths: &[usize] = if thorough { &[1_000, 10_000, 100_000, 1_000_000, 2_000_000] } else { &[1_000, 10_000, 100_000, 1_000_000] };
	let mut jobs = Vec::new();
	for &d in depths {
		for k in DEEP_KINDS {
			jobs.push((k, d));
		}
	}
	// the flat shapes also with exactly 2^16 - 1, 2^16 and 2^17 repetitions
	for (ki, k) in DEEP_KINDS.iter().enumerate() {
		if ki >= 14 {
			for d in [65_535usize, 65_536, 131_072] {
				jobs.push((*k, d));
			}
		}
	}
	// the flat valid shapes (nesting <= 2, one lexical element repeated 10^6 times) once more in a child
	// process with an ordinary 8 MiB stack: a process that dies on a valid document does not accept it
	{
		let mut rep = Report::new();
		for (ki, k) in DEEP_KINDS.iter().enumerate() {
			if ki < 14 {
				continue;
			}
			let depth = 1_000_000usize;
			let doc = gen::deep_doc(*k, depth);
			if !Reader::new().read(&doc, false).accepts(Opts::STRICT) {
				continue;
			}
			rep.evaluations += 1;
			rep.distinct_by_construction(1);
			rep.count("flat_valid_documents_in_an_ordinary_stack_child", 1);
			match super::c03::run_child(ki, depth, 8 << 20, std::time::Duration::from_secs(300)) {
				Ok((Some(0), _, _)) => (),
				Ok((code, signal, out)) => rep.violation(
					"C01:dies-on-valid-document",
					format!("{:?} with {} repetitions (a valid document nested 2 levels): the parsing process ended with exit code {:?} / signal {:?}: {}", k, depth, code, signal, out.lines().last().unwrap_or("")),
					json!({"sub": "deep", "kind": format!("{:?}", k), "depth": depth}),
				),
				Err(e) => rep.inconclusive.push(format!("flat document child for {:?}: {}", k, e)),
			}
		}
		total.merge(rep);
	}
	let jobs = std::sync::Arc::new(jobs);
	let j2 = jobs.clone();
	let rep = crate::monitor::parallel(cfg.threads.min(4), jobs.len(), move |i| {
		let (kind, depth) = j2[i];
		let mut rep = Report::new();
		let doc = gen::deep_doc(kind, depth);
		let mut rd = Reader::new();
		let want = rd.read(&doc, false).accepts(Opts::STRICT);
		rep.evaluations += 1;
		rep.distinct_by_construction(1);
		rep.count("family:deep-documents", 1);
		rep.max("deepest_document_levels", depth as u64);
		// run in a thread with a very roomy stack (1 GiB, committed lazily): stack use is C03's business, acceptance is C01's
		let doc2 = doc.clone();
		let h = std::thread::Builder::new().stack_size(1 << 30).spawn(move || {
			let r = guard(|| Value::parse_slice_with(&doc2, real::options(Opts::STRICT)));
			match r {
				Ok(Ok((v, _))) => {
					drop_value_iter(v);
					Ok(true)
				}
				Ok(Err(_)) => Ok(false),
				Err(p) => Err(p),
			}
		});
		let got = h.ok().and_then(|h| h.join().ok());
		match got {
			Some(Ok(acc)) if acc == want => (),
			Some(Ok(acc)) => rep.violation(
				if want { "C01:rejects-valid-deep" } else { "C01:accepts-invalid-deep" },
				format!("{:?} nested {} levels: reference accept={}, parse_slice_with accept={}", kind, depth, want, acc),
				json!({"sub": "deep", "kind": format!("{:?}", kind), "depth": depth}),
			),
			Some(Err(p)) => rep.violation(
				"C01:panic-deep",
				format!("{:?} nested {} levels: panic {}", kind, depth, p),
				json!({"sub": "deep", "kind": format!("{:?}", kind), "depth": depth}),
			),
			None => rep.inconclusive.push(format!("deep document thread for {:?}/{} did not finish", kind, depth)),
		}
		if i == 0 {
			rep.sample(json!({"family": "deep-documents", "shape": format!("{:?}", kind), "levels": depth}));
		}
		rep
	});
	total.merge(rep);
}
