//! C19 — the json! macro builds the same value as parsing the same literal text.
//!
//! "Programs" quantifier: batches of json! invocations are generated as Rust
//! source, compiled against the current /repo tree and executed; each program
//! compares every constructed value with the parse of the matching JSON text.

use crate::monitor::{conclude, fnv, show, Config, EvidenceMeta, Report, Tier};
use crate::oracle::print as pr;
use crate::oracle::rfc8259::RVal;
use crate::rng::Rng;
use serde_json::json;
use std::path::{Path, PathBuf};
use std::process::Command;
use std::time::Instant;

#[derive(Clone, Debug)]
pub struct Case {
	pub rust: String,
	pub json: String,
	/// false when the document contains float literals whose spelling cannot
	/// survive (they reach the macro as f64): compared as "same double".
	pub exact: bool,
	/// the document contains an `f32`-suffixed literal: numbers are compared as the same single
	pub single: bool,
}

fn rust_str(s: &str) -> String {
	// Debug formatting of a str is a valid Rust string literal
	format!("{:?}", s)
}

fn gen_macro_string(rng: &mut Rng) -> String {
	if rng.chance(1, 25) {
		// long literals: plain runs beyond any staging buffer, with and without a wide character in them
		let n = [127usize, 128, 129, 200, 257, 300, 1030][rng.below(7)];
		let mut s: String = (0..n).map(|j| char::from(b'a' + (j % 26) as u8)).collect();
		if rng.chance(1, 2) {
			s.insert(rng.below(n), ['\u{e9}', '\u{1f600}', '\n'][rng.below(3)]);
		}
		return s;
	}
	match rng.below(6) {
		0 => String::new(),
		1 => ["a", "key", "k", "x y", "0", "null", "true"][rng.below(7)].to_string(),
		2 => "sixteen-byte-key".chars().chain("!".chars().take(rng.below(2))).collect(),
		_ => {
			let n = rng.range(1, 12);
			(0..n).map(|_| crate::gen::gen_char(rng)).collect()
		}
	}
}

struct Gen<'a> {
	rng: &'a mut Rng,
	exact: bool,
	single: bool,
	nodes: usize,
}

impl<'a> Gen<'a> {
	fn scalar(&mut self) -> (String, RVal) {
		let rng = &mut *self.rng;
		match rng.below(16) {
			0 => ("null".into(), RVal::Null),
			1 => ("true".into(), RVal::Bool(true)),
			2 => ("false".into(), RVal::Bool(false)),
			3..=5 => {
				let s = gen_macro_string(rng);
				(rust_str(&s), RVal::Str(s))
			}
			6..=8 => {
				// unsuffixed integer literal (i32)
				let v: i64 = match rng.below(6) {
					0 => 0,
					1 => i32::MAX as i64,
					2 => i32::MIN as i64,
					3 => -(rng.below(1000) as i64),
					_ => rng.below(1_000_000) as i64,
				};
				(format!("{}", v), RVal::Num(v.to_string()))
			}
			9..=10 => {
				// suffixed integer literals at and around the bounds of every width
				let (text, val): (String, String) = match rng.below(16) {
					0 => ("255u8".into(), "255".into()),
					1 => ("-128i8".into(), "-128".into()),
					2 => ("65535u16".into(), "65535".into()),
					3 => ("-32768i16".into(), "-32768".into()),
					4 => ("4294967295u32".into(), "4294967295".into()),
					5 => ("-2147483648i32".into(), "-2147483648".into()),
					6 => ("18446744073709551615u64".into(), "18446744073709551615".into()),
					7 => ("9223372036854775808u64".into(), "9223372036854775808".into()),
					8 => ("-9223372036854775808i64".into(), "-9223372036854775808".into()),
					9 => ("9223372036854775807i64".into(), "9223372036854775807".into()),
					10 => ("0u8".into(), "0".into()),
					11 => {
						let v = rng.next_u64();
						(format!("{}u64", v), v.to_string())
					}
					12 => {
						let v = rng.next_u64() as i64;
						(format!("{}i64", v), v.to_string())
					}
					13 => {
						let v = rng.next_u64() as u32;
						(format!("{}u32", v), v.to_string())
					}
					14 => {
						let v = rng.next_u64() as i16;
						(format!("{}i16", v), v.to_string())
					}
					_ => {
						let v = rng.next_u64() as u16;
						(format!("{}_u16", v), v.to_string())
					}
				};
				(text, RVal::Num(val))
			}
			11..=12 => {
				// spelling-stable float: shortest decimal without exponent, non-zero fraction, 1e-4 <= |x| < 1e8
				let bound = if rng.chance(1, 2) { 100 } else { 10_000_000 };
				let int = rng.below(bound);
				let frac_digits = rng.range(1, 4);
				let mut frac = rng.below(10usize.pow(frac_digits as u32));
				if frac % 10 == 0 {
					frac += 1;
				}
				let s = format!("{}{}.{:0w$}", if rng.chance(1, 3) { "-" } else { "" }, int, frac, w = frac_digits);
				// keep only spellings that are their own shortest round-trip form
				let x: f64 = s.parse().unwrap();
				if format!("{}", x) == s && x.abs() >= 1e-4 {
					(s.clone(), RVal::Num(s))
				} else {
					("1.5".into(), RVal::Num("1.5".into()))
				}
			}
			_ => {
				if !rng.chance(1, 5) {
					let s = gen_macro_string(rng);
					return (rust_str(&s), RVal::Str(s));
				}
				// floats whose spelling cannot survive: exponent forms, trailing zeros, f32 suffix, integral floats
				self.exact = false;
				match rng.below(4) {
					0 => {
						// doubles with few significant bits (widened singles, dyadic fractions), shortest spelling
						let x: f64 = loop {
							let x = match rng.below(3) {
								0 => f32::from_bits(rng.next_u64() as u32) as f64,
								1 => [0.1f32, 0.2, 0.7, 1.1, 3.14, 1e10, 1e-10, 16777217.0, f32::MAX, f32::MIN_POSITIVE][rng.below(10)] as f64,
								_ => (1 + 2 * rng.below(64)) as f64 * 2f64.powi(rng.below(120) as i32 - 60),
							};
							if x.is_finite() {
								break x;
							}
						};
						let s = format!("{:?}", x);
						return (s.clone(), RVal::Num(s.strip_suffix(".0").map(|t| t.to_string()).unwrap_or(s)));
					}
					1 => {
						// any double, shortest spelling (decimal or exponent form as Rust prints it)
						let x = loop {
							let x = f64::from_bits(rng.next_u64());
							if x.is_finite() {
								break x;
							}
						};
						let s = format!("{:?}", x);
						return (s.clone(), RVal::Num(s.strip_suffix(".0").map(|t| t.to_string()).unwrap_or(s)));
					}
					2 => {
						// any single with the f32 suffix
						self.single = true;
						let x = loop {
							let x = f32::from_bits(rng.next_u64() as u32);
							if x.is_finite() {
								break x;
							}
						};
						let s = format!("{:?}", x);
						return (format!("{}f32", s), RVal::Num(s.strip_suffix(".0").map(|t| t.to_string()).unwrap_or(s)));
					}
					_ => {}
				}
				let (text, val): (&str, &str) = [
					("1e3", "1000"),
					("2.50", "2.5"),
					("1.0", "1"),
					("-0.0", "-0"),
					("1.5e-7", "0.00000015"),
					("6.02e23", "602000000000000000000000"),
					("0.1f32", "0.1"),
					("1.5f32", "1.5"),
					("3.0e0f64", "3"),
					("1_000.5", "1000.5"),
					("123456789.125", "123456789.125"),
					("1e-10", "0.0000000001"),
				][rng.below(12)];
				(text.to_string(), RVal::Num(val.to_string()))
			}
		}
	}

	fn key(&mut self, prev: &[(String, RVal)]) -> (String, String) {
		let rng = &mut *self.rng;
		let s = if !prev.is_empty() && rng.chance(1, 4) { prev[rng.below(prev.len())].0.clone() } else { gen_macro_string(rng) };
		let lit = rust_str(&s);
		let text = match rng.below(10) {
			0 => format!("({})", lit),
			1 => format!("(String::from({}))", lit),
			2 => format!("String::from({})", lit),
			3 => format!("concat!({}, \"\")", lit),
			4 if s.is_empty() => "K_EMPTY".to_string(),
			_ => lit,
		};
		(text, s)
	}

	fn value(&mut self, depth: usize) -> (String, RVal) {
		self.nodes += 1;
		let leafy = depth >= 4 || self.nodes > 40 || (depth > 0 && self.rng.chance(1, 2));
		if leafy {
			return self.scalar();
		}
		let n = match self.rng.below(8) {
			0 => 0,
			1 => 1,
			2..=5 => self.rng.range(2, 4),
			_ => self.rng.range(5, 8),
		};
		let trailing = n > 0 && self.rng.chance(1, 3);
		let sp = |rng: &mut Rng| if rng.chance(1, 2) { " " } else { "" };
		if self.rng.chance(1, 2) {
			let mut text = String::from("[");
			let mut items = Vec::new();
			for i in 0..n {
				let (t, v) = self.value(depth + 1);
				if i > 0 {
					text.push(',');
					text.push_str(sp(self.rng));
				}
				text.push_str(&t);
				items.push(v);
			}
			if trailing {
				text.push(',')
			}
			text.push(']');
			(text, RVal::Arr(items))
		} else {
			let mut text = String::from("{");
			let mut entries: Vec<(String, RVal)> = Vec::new();
			for i in 0..n {
				let (kt, k) = self.key(&entries);
				let (t, v) = self.value(depth + 1);
				if i > 0 {
					text.push(',');
					text.push_str(sp(self.rng));
				}
				text.push_str(&kt);
				text.push_str(sp(self.rng));
				text.push(':');
				text.push_str(sp(self.rng));
				text.push_str(&t);
				entries.push((k, v));
			}
			if trailing {
				text.push(',')
			}
			text.push('}');
			(text, RVal::Obj(entries))
		}
	}
}

pub fn gen_case(rng: &mut Rng) -> Case {
	let mut g = Gen {
		rng,
		exact: true,
		single: false,
		nodes: 0,
	};
	let (rust, v) = if g.rng.chance(1, 10) { g.scalar() } else { g.value(0) };
	let mut json = String::new();
	pr::compact(&v, &mut json);
	let exact = g.exact;
	let single = g.single;
	// the macro is also invoked with braces / brackets delimiters
	let rust = match g.rng.below(3) {
		0 => format!("json!({})", rust),
		1 => format!("json! {{ {} }}", rust),
		_ => format!("json![{}]", rust),
	};
	// a quarter of the texts spell every non-ASCII character as \uXXXX escapes (surrogate pairs included)
	let json = if g.rng.chance(1, 4) {
		let mut t = String::with_capacity(json.len());
		let mut units = [0u16; 2];
		for c in json.chars() {
			if c.is_ascii() {
				t.push(c);
			} else {
				for u in c.encode_utf16(&mut units) {
					t.push_str(&format!("\\u{:04X}", u));
				}
			}
		}
		t
	} else {
		json
	};
	Case { rust, json, exact, single }
}

const PRELUDE: &str = r#"#![recursion_limit = "1024"]
#![allow(unused)]
use json_syntax::{json, Parse, Value};
const K_EMPTY: &str = "";
fn same(a: &Value, b: &Value, exact: bool, single: bool) -> bool {
	match (a, b) {
		(Value::Number(x), Value::Number(y)) => {
			if exact { x == y } else {
				x.as_str() == y.as_str() || (x.as_str().parse::<f64>().ok().map(f64::to_bits) == y.as_str().parse::<f64>().ok().map(f64::to_bits) && x.as_str().parse::<f64>().is_ok())
					|| (single && x.as_str().parse::<f32>().ok().map(f32::to_bits) == y.as_str().parse::<f32>().ok().map(f32::to_bits) && x.as_str().parse::<f32>().is_ok())
			}
		}
		(Value::Array(x), Value::Array(y)) => x.len() == y.len() && x.iter().zip(y.iter()).all(|(p, q)| same(p, q, exact, single)),
		(Value::Object(x), Value::Object(y)) => {
			x.len() == y.len() && x.iter().zip(y.iter()).all(|(p, q)| p.key == q.key && same(&p.value, &q.value, exact, single))
		}
		_ => a == b,
	}
}
fn lookups_agree(a: &Value, b: &Value) -> bool {
	match (a, b) {
		(Value::Array(x), Value::Array(y)) => x.len() == y.len() && x.iter().zip(y.iter()).all(|(p, q)| lookups_agree(p, q)),
		(Value::Object(x), Value::Object(y)) => {
			let mut ok = x.len() == y.len();
			for e in y.iter() {
				let k = e.key.as_str();
				// positions are compared, so values need not be comparable exactly
				ok &= x.indexes_of(k).collect::<Vec<_>>() == y.indexes_of(k).collect::<Vec<_>>();
				ok &= x.index_of(k) == y.index_of(k);
				ok &= x.get_with_index(k).map(|(i, _)| i).collect::<Vec<_>>() == y.get_with_index(k).map(|(i, _)| i).collect::<Vec<_>>();
				ok &= x.get(k).count() == y.get(k).count() && x.contains_key(k);
				ok &= x.get_unique(k).is_ok() == y.get_unique(k).is_ok();
			}
			ok && x.iter().zip(y.iter()).all(|(p, q)| lookups_agree(&p.value, &q.value))
		}
		_ => true,
	}
}
fn check(i: usize, built: Value, text: &str, exact: bool, single: bool) {
	// the byte-slice entry point must read the same text the same way
	match (Value::parse_slice(text.as_bytes()), Value::parse_str(text)) {
		(Ok((a, _)), Ok((b, _))) if a == b => (),
		(Err(_), Err(_)) => (),
		(a, b) => {
			println!("CASE {} FAIL parse_slice and parse_str disagree on the text: {:?} / {:?}", i, a.map(|x| x.0.to_string()).map_err(|e| format!("{:?}", e)), b.map(|x| x.0.to_string()).map_err(|e| format!("{:?}", e)));
			return;
		}
	}
	match Value::parse_str(text) {
		Ok((parsed, _)) => {
			let ok = if exact { built == parsed } else { same(&built, &parsed, false, single) };
			// the index of every macro-built object must answer queries like that of the parsed one
			let q_ok = lookups_agree(&built, &parsed);
			if ok && q_ok { println!("CASE {} ok", i) } else { println!("CASE {} FAIL built={} parsed={} lookups_agree={}", i, built, parsed, q_ok) }
		}
		Err(e) => println!("CASE {} FAIL text-does-not-parse {:?}", i, e),
	}
}
fn main() {
"#;

/// Source of one batch; each case occupies exactly one line (for error mapping).
pub fn render_batch(cases: &[Case]) -> (String, usize) {
	let mut src = String::from(PRELUDE);
	let first_line = src.lines().count() + 1;
	for (i, c) in cases.iter().enumerate() {
		src.push_str(&format!("\tcheck({}, {}, {}, {}, {});\n", i, c.rust, rust_str(&c.json), c.exact, c.single));
	}
	src.push_str("}\n");
	(src, first_line)
}

fn cargo(dir: &Path, target: &Path, args: &[&str]) -> Result<(bool, String), String> {
	let out = Command::new("cargo")
		.args(args)
		.current_dir(dir)
		.env("CARGO_NET_OFFLINE", "true")
		.env("CARGO_TARGET_DIR", target)
		.env("RUSTFLAGS", "")
		.output()
		.map_err(|e| format!("cannot run cargo: {}", e))?;
	Ok((out.status.success(), format!("{}{}", String::from_utf8_lossy(&out.stdout), String::from_utf8_lossy(&out.stderr))))
}

fn setup_crate(cfg: &Config, name: &str) -> Result<(PathBuf, PathBuf), String> {
	let dir = cfg.verif_dir.join("work").join(name);
	let _ = std::fs::remove_dir_all(&dir);
	std::fs::create_dir_all(dir.join("src/bin")).map_err(|e| e.to_string())?;
	let tmpl = std::fs::read_to_string(cfg.verif_dir.join("macro_gen/Cargo.toml.tmpl")).map_err(|e| format!("macro_gen template: {}", e))?;
	std::fs::write(dir.join("Cargo.toml"), tmpl.replace("@REPO@", &cfg.repo_dir.display().to_string())).map_err(|e| e.to_string())?;
	let _ = std::fs::copy(cfg.repo_dir.join("Cargo.lock"), dir.join("Cargo.lock"));
	std::fs::write(dir.join("src/lib.rs"), "// generated\n").map_err(|e| e.to_string())?;
	Ok((dir, cfg.verif_dir.join("work/target-macro")))
}

/// Builds and runs the batches; fills the report.
fn run_batches(cfg: &Config, rep: &mut Report, batches: &[Vec<Case>], crate_name: &str) {
	let (dir, target) = match setup_crate(cfg, crate_name) {
		Ok(x) => x,
		Err(e) => {
			rep.inconclusive.push(e);
			return;
		}
	};
	let mut first_lines = Vec::new();
	for (b, cases) in batches.iter().enumerate() {
		let (src, first) = render_batch(cases);
		first_lines.push(first);
		if let Err(e) = std::fs::write(dir.join(format!("src/bin/b{}.rs", b)), src) {
			rep.inconclusive.push(e.to_string());
			return;
		}
	}
	let (ok, log) = match cargo(&dir, &target, &["build", "--offline", "--bins", "--message-format", "short"]) {
		Ok(x) => x,
		Err(e) => {
			rep.inconclusive.push(e);
			return;
		}
	};
	rep.count("programs_compiled", batches.len() as u64);
	if !ok {
		// does the repository itself still build (with its own macro tests)?
		let lib_ok = cargo(&dir, &target, &["build", "--offline", "--lib"]).map(|x| x.0).unwrap_or(false);
		if !lib_ok {
			rep.inconclusive.push("the repository does not build; cannot compile generated programs".into());
			return;
		}
		// map the first error of each file to its case: `src/bin/b3.rs:17:9: error...`
		let mut reported = 0;
		for line in log.lines() {
			if !line.contains("error") {
				continue;
			}
			let Some(pos) = line.find("src/bin/b") else { continue };
			let rest = &line[pos + "src/bin/b".len()..];
			let mut it = rest.split(|c| c == '.' || c == ':');
			let b: usize = it.next().and_then(|x| x.parse().ok()).unwrap_or(usize::MAX);
			let _rs = it.next();
			let ln: usize = it.next().and_then(|x| x.parse().ok()).unwrap_or(0);
			if b < batches.len() && ln >= first_lines[b] && ln - first_lines[b] < batches[b].len() {
				let c = &batches[b][ln - first_lines[b]];
				rep.violation(
					"C19:macro-rejects-literal",
					format!("the generated invocation `{}` (JSON {}) does not compile: {}", c.rust, show(c.json.as_bytes()), line.chars().take(300).collect::<String>()),
					json!({"sub": "macro", "rust": c.rust, "json": c.json, "exact": c.exact, "single": c.single}),
				);
				reported += 1;
				if reported >= 5 {
					break;
				}
			}
		}
		if reported == 0 {
			rep.inconclusive.push(format!("generated programs do not compile and the error could not be attributed to a case: {}", log.lines().filter(|l| l.contains("error")).take(3).collect::<Vec<_>>().join(" | ")));
		}
		return;
	}
	for (b, cases) in batches.iter().enumerate() {
		let exe = target.join("debug").join(format!("b{}", b));
		let out = match Command::new(&exe).output() {
			Ok(o) => o,
			Err(e) => {
				rep.inconclusive.push(format!("cannot run {}: {}", exe.display(), e));
				continue;
			}
		};
		rep.count("programs_executed", 1);
		let stdout = String::from_utf8_lossy(&out.stdout).to_string();
		let mut seen = 0usize;
		for line in stdout.lines() {
			let Some(rest) = line.strip_prefix("CASE ") else { continue };
			let mut it = rest.splitn(2, ' ');
			let i: usize = it.next().and_then(|x| x.parse().ok()).unwrap_or(usize::MAX);
			let verdict = it.next().unwrap_or("");
			if i >= cases.len() {
				continue;
			}
			seen += 1;
			rep.evaluations += 1;
			let c = &cases[i];
			rep.distinct_hash(fnv(c.rust.as_bytes()));
			if c.exact {
				rep.count("cases_compared_exactly", 1)
			} else {
				rep.count("cases_compared_as_same_double", 1)
			}
			if verdict != "ok" {
				rep.violation(
					"C19:value-differs",
					format!("`{}` vs JSON text {}: {}", c.rust, show(c.json.as_bytes()), verdict.chars().take(600).collect::<String>()),
					json!({"sub": "macro", "rust": c.rust, "json": c.json, "exact": c.exact, "single": c.single}),
				);
			}
		}
		if !out.status.success() || seen != cases.len() {
			// a panic inside the program (e.g. the macro's unwrap) ends it early: attribute to the first unseen case
			let c = &cases[seen.min(cases.len() - 1)];
			let err = String::from_utf8_lossy(&out.stderr);
			rep.violation(
				"C19:program-aborted",
				format!("generated program b{} stopped after {} of {} cases (exit {:?}) at `{}`: {}", b, seen, cases.len(), out.status.code(), c.rust, err.lines().next().unwrap_or("")),
				json!({"sub": "macro", "rust": c.rust, "json": c.json, "exact": c.exact, "single": c.single}),
			);
		}
	}
}

pub fn run(cfg: &Config) -> i32 {
	let started = Instant::now();
	let thorough = cfg.tier == Tier::Thorough;
	let mut total = Report::new();
	let (n_batches, per) = if thorough { (16usize, 500usize) } else { (8usize, 120usize) };
	let mut batches = Vec::new();
	for b in 0..n_batches {
		let mut rng = Rng::new(cfg.seed).fork(0xc19 + b as u64);
		let mut cases: Vec<Case> = (0..per).map(|_| gen_case(&mut rng)).collect();
		{
			// arrays and objects of exactly k scalar literals with and without a trailing comma, alone and after
			// an interrupting element (block-wise munchers, recursion limits); spread over the batches
			let ks: Vec<usize> = if thorough { (1..=40).collect() } else { vec![1, 2, 3, 4, 5, 6, 7, 8, 9, 10, 11, 12, 15, 16, 17, 23, 24, 25, 31, 32, 33, 40] };
			for (ki, &k) in ks.iter().enumerate() {
				if ki % n_batches != b {
					continue;
				}
				for trailing in [false, true] {
					let items: Vec<String> = (0..k).map(|j| match j % 4 { 0 => format!("{}", j), 1 => format!("\"s{}\"", j), 2 => "true".to_string(), _ => format!("-{}", j) }).collect();
					let t = if trailing { "," } else { "" };
					cases.push(Case { rust: format!("json!([{}{}])", items.join(", "), t), json: format!("[{}]", items.join(",")), exact: true, single: false });
					cases.push(Case { rust: format!("json!([null, [], {}{}])", items.join(", "), t), json: format!("[null,[],{}]", items.join(",")), exact: true, single: false });
					let entries: Vec<String> = (0..k).map(|j| format!("\"k{}\": {}", j % 30, items[j])).collect();
					let jentries: Vec<String> = (0..k).map(|j| format!("\"k{}\":{}", j % 30, items[j])).collect();
					cases.push(Case { rust: format!("json!({{{}{}}})", entries.join(", "), t), json: format!("{{{}}}", jentries.join(",")), exact: true, single: false });
					cases.push(Case { rust: format!("json!({{\"head\": null, (\"p\"): {{}}, {}{}}})", entries.join(", "), t), json: format!("{{\"head\":null,\"p\":{{}},{}}}", jentries.join(",")), exact: true, single: false });
					if !trailing {
						// the same run over five keys only: many duplicates of every key
						let entries: Vec<String> = (0..k).map(|j| format!("\"d{}\": {}", (j * 3) % 5, items[j])).collect();
						let jentries: Vec<String> = (0..k).map(|j| format!("\"d{}\":{}", (j * 3) % 5, items[j])).collect();
						cases.push(Case { rust: format!("json!({{{}}})", entries.join(", ")), json: format!("{{{}}}", jentries.join(",")), exact: true, single: false });
					}
				}
			}
		}
		if b == 1 {
			// one literal beyond 8 KiB and 64 KiB of text (byte-slice front ends work block-wise)
			for n in [4_200usize, 33_000] {
				let s = "\u{e9}".repeat(n);
				cases.push(Case { rust: format!("json!([1, {}, {{\"k\": {}}}])", rust_str(&s), rust_str(&s)), json: format!("[1,\"{}\",{{\"k\":\"{}\"}}]", s, s), exact: true, single: false });
			}
		}
		if b == 0 {
			// fixed corner cases in every run
			for (r, j) in [
				("json!([{}])", "[{}]"),
				("json!([[], {}, [{}], {\"a\": {}}, ])", "[[],{},[{}],{\"a\":{}}]"),
				("json!({\"a\": [1, 2,], \"a\": {\"b\": null,},})", "{\"a\":[1,2],\"a\":{\"b\":null}}"),
				("json!(18446744073709551615u64)", "18446744073709551615"),
				("json!([-1, -2147483648, 2147483647])", "[-1,-2147483648,2147483647]"),
				("json!({(\"k\"): true, (String::from(\"k\")): false})", "{\"k\":true,\"k\":false}"),
			] {
				cases.push(Case {
					rust: r.to_string(),
					json: j.to_string(),
					exact: true,
					single: false,
				});
			}
		}
		batches.push(cases);
	}
	for c in batches[0].iter().take(3) {
		total.sample(json!({"rust": c.rust, "json": c.json, "compared": if c.exact { "exactly" } else { "same structure, numbers as same double" }}));
	}
	run_batches(cfg, &mut total, &batches, "macro_gen");
	conclude(
		cfg,
		EvidenceMeta {
			id: "C19",
			rule: "a case is one json! invocation over a generated document (nesting up to 4, optional trailing commas at every level incl. after nested containers, string literals of every character class (also 127..1030 characters long, and two of 8 KiB / 64 KiB), null/true/false, unsuffixed i32 integers incl. negative ones, suffixed integers of every width at their bounds, spelling-stable floats compared exactly and exponent / trailing-zero floats, the shortest spelling of random doubles and of doubles with few significant bits (widened singles, dyadic fractions) compared as the same double, f32-suffixed literals (fixed ones and the shortest spelling of random singles) compared as the same single, duplicate keys, parenthesized / String::from / concat! / const keys, the three macro delimiters; plus arrays and objects of exactly k scalar literals for every k in 1..40 with and without a trailing comma) emitted as Rust source together with the matching JSON text; the programs are compiled against the current tree and executed, each comparing the constructed value with Value::parse_str of the text (written raw or, for a quarter of the cases, with every non-ASCII character as \\uXXXX escapes), and the positions every key lookup reports on every object of the constructed value with those on the parsed one; a compile error attributed to an invocation is a violation; distinct invocations counted by hash",
			exhaustive: false,
			assumptions: vec!["rustc's macro expander is part of the trusted base; a float literal reaches the macro as an f64, so only shortest-round-trip spellings without exponent are required to be preserved exactly".into()],
			extra: json!({"batches": n_batches, "invocations_per_batch": per}),
		},
		total,
		started,
		if thorough { 4000 } else { 600 },
	)
	.exit
}

pub fn replay_case(cfg: &Config, case: &serde_json::Value) -> Option<Vec<String>> {
	let c = Case {
		rust: case.get("rust")?.as_str()?.to_string(),
		json: case.get("json")?.as_str()?.to_string(),
		exact: case.get("exact")?.as_bool()?,
		single: case.get("single").and_then(|x| x.as_bool()).unwrap_or(false),
	};
	let mut rep = Report::new();
	run_batches(cfg, &mut rep, &[vec![c]], "macro_replay");
	if !rep.inconclusive.is_empty() {
		return None;
	}
	Some(rep.violations.iter().map(|v| format!("[{}] {}", v.signature, v.what)).collect())
}
