//! C20 — KindSet is a faithful finite set of value kinds (complete enumeration).

use crate::monitor::{conclude, guard, Config, EvidenceMeta, Report};
use json_syntax::{Kind, KindSet, Value};
use serde_json::json;
use std::collections::BTreeSet;
use std::time::Instant;

const KINDS: [Kind; 6] = [Kind::Null, Kind::Boolean, Kind::Number, Kind::String, Kind::Array, Kind::Object];

fn name(k: Kind) -> &'static str {
	match k {
		Kind::Null => "null",
		Kind::Boolean => "boolean",
		Kind::Number => "number",
		Kind::String => "string",
		Kind::Array => "array",
		Kind::Object => "object",
	}
}

type MSet = BTreeSet<Kind>;

/// Error of the probe conversions below: the `Unexpected` payload when that is what failed.
enum ConvErr {
	Unexpected(usize, json_syntax::Unexpected),
	Other,
}

impl From<json_syntax::code_map::Mapped<json_syntax::Unexpected>> for ConvErr {
	fn from(e: json_syntax::code_map::Mapped<json_syntax::Unexpected>) -> Self {
		ConvErr::Unexpected(e.offset, e.value)
	}
}

impl From<json_syntax::code_map::Mapped<std::convert::Infallible>> for ConvErr {
	fn from(_: json_syntax::code_map::Mapped<std::convert::Infallible>) -> Self {
		ConvErr::Other
	}
}

impl<T> From<json_syntax::code_map::Mapped<json_syntax::TryIntoNumberError<T>>> for ConvErr {
	fn from(e: json_syntax::code_map::Mapped<json_syntax::TryIntoNumberError<T>>) -> Self {
		match e.value {
			json_syntax::TryIntoNumberError::Unexpected(u) => ConvErr::Unexpected(e.offset, u),
			_ => ConvErr::Other,
		}
	}
}

/// A leaf type whose conversion is the one of `()` with the error type the container impls need.
struct UnitProbe;

impl json_syntax::TryFromJson for UnitProbe {
	type Error = ConvErr;
	fn try_from_json_at(v: &Value, cm: &json_syntax::CodeMap, offset: usize) -> Result<Self, ConvErr> {
		<() as json_syntax::TryFromJson>::try_from_json_at(v, cm, offset).map(|_| UnitProbe).map_err(ConvErr::from)
	}
}

fn text_of(v: &Value) -> String {
	v.to_string()
}

/// Every `TryFromJson` conversion of the crate applied to `v`: `Some((expected, found, message))` when it fails with `Unexpected`.
fn conversions(v: &Value, cm: &json_syntax::CodeMap) -> Vec<(&'static str, Option<(usize, KindSet, Kind, String)>)> {
	use json_syntax::TryFromJson;
	fn brief<T, E: Into<ConvErr>>(r: Result<T, E>) -> Option<(usize, KindSet, Kind, String)> {
		match r.map_err(Into::into) {
			Err(ConvErr::Unexpected(at, u)) => Some((at, u.expected, u.found, u.to_string())),
			_ => None,
		}
	}
	macro_rules! conv {
		($($t:ty),*) => { vec![$((stringify!($t), brief(<$t>::try_from_json_at(v, cm, 0)))),*] };
	}
	conv!((), bool, u8, u16, u32, u64, usize, i8, i16, i32, i64, isize, f32, f64, String, Box<bool>, Box<Box<String>>, Option<bool>, Option<Box<u8>>, Vec<UnitProbe>, Vec<Vec<UnitProbe>>, std::collections::BTreeMap<String, UnitProbe>, Box<std::collections::BTreeMap<String, UnitProbe>>, Option<Vec<UnitProbe>>, UnitProbe)
}

fn model(mask: usize) -> MSet {
	(0..6).filter(|i| mask >> i & 1 == 1).map(|i| KINDS[i]).collect()
}

/// Builds the set through the public API in one of several ways.
fn build(mask: usize, how: usize) -> KindSet {
	let ks: Vec<Kind> = (0..6).filter(|i| mask >> i & 1 == 1).map(|i| KINDS[i]).collect();
	match how % 5 {
		0 => {
			let mut s = KindSet::none();
			for k in ks {
				s = s | k
			}
			s
		}
		1 => {
			let mut s = KindSet::none();
			for k in ks.iter().rev() {
				s |= *k
			}
			s
		}
		2 => {
			// remove the complement from all()
			let mut s = KindSet::all();
			for i in 0..6 {
				if mask >> i & 1 == 0 {
					// all \ {k} = intersection with the union of the others
					let mut others = KindSet::none();
					for (j, k) in KINDS.iter().enumerate() {
						if j != i {
							others |= *k
						}
					}
					s &= others;
				}
			}
			s
		}
		3 => {
			let consts = [KindSet::NULL, KindSet::BOOLEAN, KindSet::NUMBER, KindSet::STRING, KindSet::ARRAY, KindSet::OBJECT];
			let mut s = KindSet::default();
			for i in 0..6 {
				if mask >> i & 1 == 1 {
					s |= consts[i]
				}
			}
			s
		}
		_ => {
			if ks.len() >= 2 {
				let mut s = ks[0] | ks[1];
				for k in &ks[2..] {
					s = *k | s
				}
				s
			} else if ks.len() == 1 {
				KindSet::from(ks[0])
			} else {
				KindSet::none()
			}
		}
	}
}

fn render(m: &MSet, word: &str) -> String {
	let v: Vec<&str> = m.iter().map(|k| name(*k)).collect();
	match v.len() {
		0 => "nothing".to_string(),
		6 => "anything".to_string(),
		1 => v[0].to_string(),
		n => format!("{} {} {}", v[..n - 1].join(", "), word, v[n - 1]),
	}
}

fn contents(s: KindSet) -> Vec<Kind> {
	s.iter().collect()
}

/// Model-based exploration of an exact-size, double-ended, fused iterator over
/// `items`: the model is a double-ended queue. Steps: next, next_back,
/// nth(k), nth_back(k) for k in {0, 1, 2, 7}. After every prefix of every
/// sequence of up to 3 steps: `len` / `size_hint`, and every whole-iterator
/// method of `Iterator` / `DoubleEndedIterator` applied to a copy.
fn method_sequences<I>(items: &[Kind], make: &dyn Fn() -> I) -> Result<u64, String>
where
	I: DoubleEndedIterator<Item = Kind> + ExactSizeIterator + Clone,
{
	use std::collections::VecDeque;
	#[derive(Clone, Copy, Debug)]
	enum Step {
		Next,
		NextBack,
		Nth(usize),
		NthBack(usize),
	}
	let mut alphabet = vec![Step::Next, Step::NextBack];
	for k in [0usize, 1, 2, 7] {
		alphabet.push(Step::Nth(k));
		alphabet.push(Step::NthBack(k));
	}
	fn whole<I: DoubleEndedIterator<Item = Kind> + ExactSizeIterator + Clone>(it: &I, m: &VecDeque<Kind>, ctx: &dyn Fn() -> String) -> Result<u64, String> {
		let v: Vec<Kind> = m.iter().copied().collect();
		let mut n = 0u64;
		macro_rules! same {
			($what:literal, $got:expr, $want:expr) => {{
				n += 1;
				let (g, w) = ($got, $want);
				if g != w {
					return Err(format!("{}: {} gives {:?}, expected {:?} (remaining {:?})", ctx(), $what, g, w, v));
				}
			}};
		}
		same!("len()", it.len(), v.len());
		same!("size_hint()", it.size_hint(), (v.len(), Some(v.len())));
		same!("collect()", it.clone().collect::<Vec<_>>(), v.clone());
		same!("rev().collect()", it.clone().rev().collect::<Vec<_>>(), v.iter().rev().copied().collect::<Vec<_>>());
		same!("count()", it.clone().count(), v.len());
		same!("last()", it.clone().last(), v.last().copied());
		same!("Iterator::min", Iterator::min(it.clone()), v.iter().copied().min());
		same!("Iterator::max", Iterator::max(it.clone()), v.iter().copied().max());
		same!("min_by", it.clone().min_by(|a, b| a.cmp(b)), v.iter().copied().min());
		same!("max_by", it.clone().max_by(|a, b| a.cmp(b)), v.iter().copied().max());
		same!("min_by_key(Reverse)", it.clone().min_by_key(|k| std::cmp::Reverse(*k)), v.iter().copied().max());
		same!("max_by_key(Reverse)", it.clone().max_by_key(|k| std::cmp::Reverse(*k)), v.iter().copied().min());
		same!("fold", it.clone().fold(Vec::new(), |mut a, k| { a.push(k); a }), v.clone());
		same!("rfold", it.clone().rfold(Vec::new(), |mut a, k| { a.push(k); a }), v.iter().rev().copied().collect::<Vec<_>>());
		same!("reduce(first)", it.clone().reduce(|a, _| a), v.first().copied());
		same!("reduce(last)", it.clone().reduce(|_, b| b), v.last().copied());
		same!("partition", it.clone().partition::<Vec<_>, _>(|k| (*k as usize) % 2 == 0), v.iter().copied().partition::<Vec<_>, _>(|k| (*k as usize) % 2 == 0));
		same!("eq(model)", it.clone().eq(v.iter().copied()), true);
		same!("cmp(model)", it.clone().cmp(v.iter().copied()), std::cmp::Ordering::Equal);
		same!("is_sorted", it.clone().is_sorted(), true);
		let mut each = Vec::new();
		it.clone().for_each(|k| each.push(k));
		same!("for_each", each, v.clone());
		same!("step_by(2)", it.clone().step_by(2).collect::<Vec<_>>(), v.iter().copied().step_by(2).collect::<Vec<_>>());
		same!("skip(1)", it.clone().skip(1).collect::<Vec<_>>(), v.iter().copied().skip(1).collect::<Vec<_>>());
		same!("rev().skip(1)", it.clone().rev().skip(1).collect::<Vec<_>>(), v.iter().rev().copied().skip(1).collect::<Vec<_>>());
		same!("take(2)", it.clone().take(2).collect::<Vec<_>>(), v.iter().copied().take(2).collect::<Vec<_>>());
		same!("chain", it.clone().chain(it.clone()).count(), 2 * v.len());
		same!("zip(rev)", it.clone().zip(it.clone().rev()).collect::<Vec<_>>(), v.iter().copied().zip(v.iter().rev().copied()).collect::<Vec<_>>());
		same!("enumerate().last()", it.clone().enumerate().last(), v.iter().copied().enumerate().last());
		same!("peekable", { let mut p = it.clone().peekable(); let a = p.peek().copied(); (a, p.collect::<Vec<_>>()) }, (v.first().copied(), v.clone()));
		// searching methods: the found item and what is left afterwards
		for target in KINDS {
			let mut a = it.clone();
			let mut b = v.iter().copied();
			same!("find", a.find(|k| *k == target), b.find(|k| *k == target));
			same!("the items left after find", a.collect::<Vec<_>>(), b.collect::<Vec<_>>());
			let mut a = it.clone();
			let mut b = v.iter().copied();
			same!("rfind", a.rfind(|k| *k == target), b.rfind(|k| *k == target));
			same!("the items left after rfind", a.collect::<Vec<_>>(), b.collect::<Vec<_>>());
			let mut a = it.clone();
			let mut b = v.iter().copied();
			same!("position", a.position(|k| k == target), b.position(|k| k == target));
			same!("the items left after position", a.collect::<Vec<_>>(), b.collect::<Vec<_>>());
			let mut a = it.clone();
			let mut b = v.iter().copied();
			same!("rposition", a.rposition(|k| k == target), b.rposition(|k| k == target));
			same!("the items left after rposition", a.collect::<Vec<_>>(), b.collect::<Vec<_>>());
			let mut a = it.clone();
			let mut b = v.iter().copied();
			same!("any", a.any(|k| k == target), b.any(|k| k == target));
			same!("the items left after any", a.collect::<Vec<_>>(), b.collect::<Vec<_>>());
			let mut a = it.clone();
			let mut b = v.iter().copied();
			same!("all", a.all(|k| k != target), b.all(|k| k != target));
			same!("the items left after all", a.collect::<Vec<_>>(), b.collect::<Vec<_>>());
			let mut a = it.clone();
			let mut b = v.iter().copied();
			same!("find_map", a.find_map(|k| if k >= target { Some(k as usize) } else { None }), b.find_map(|k| if k >= target { Some(k as usize) } else { None }));
			same!("skip_while", it.clone().skip_while(|k| *k < target).collect::<Vec<_>>(), v.iter().copied().skip_while(|k| *k < target).collect::<Vec<_>>());
			same!("take_while", it.clone().take_while(|k| *k < target).collect::<Vec<_>>(), v.iter().copied().take_while(|k| *k < target).collect::<Vec<_>>());
		}
		Ok(n)
	}
	let mut total = 0u64;
	let mut stack: Vec<Vec<Step>> = vec![vec![]];
	while let Some(seq) = stack.pop() {
		// replay the sequence on a fresh iterator and on the model
		let mut it = make();
		let mut m: VecDeque<Kind> = items.iter().copied().collect();
		for (i, st) in seq.iter().enumerate() {
			let (got, want) = match *st {
				Step::Next => (it.next(), m.pop_front()),
				Step::NextBack => (it.next_back(), m.pop_back()),
				Step::Nth(k) => (it.nth(k), {
					for _ in 0..k.min(m.len()) {
						m.pop_front();
					}
					m.pop_front()
				}),
				Step::NthBack(k) => (it.nth_back(k), {
					for _ in 0..k.min(m.len()) {
						m.pop_back();
					}
					m.pop_back()
				}),
			};
			total += 1;
			if got != want {
				return Err(format!("iter() of {:?} after {:?}: {:?} gives {:?}, expected {:?}", items, &seq[..i], st, got, want));
			}
		}
		let ctx = || format!("iter() of {:?} after {:?}", items, seq);
		total += whole(&it, &m, &ctx)?;
		if seq.len() < 3 {
			for st in &alphabet {
				let mut s2 = seq.clone();
				s2.push(*st);
				stack.push(s2);
			}
		}
	}
	Ok(total)
}

pub fn run(cfg: &Config) -> i32 {
	let started = Instant::now();
	let mut rep = Report::new();
	let mut fail = |rep: &mut Report, cat: &str, what: String| {
		rep.violation(format!("C20:{}", cat), what.clone(), json!({"sub": "kinds", "what": what}));
	};
	let r = guard(|| {
		let mut rep = Report::new();
		// all 64 sets, 5 constructions each
		for mask in 0..64usize {
			let m = model(mask);
			let mv: Vec<Kind> = m.iter().copied().collect();
			let s0 = build(mask, 0);
			for how in 0..5 {
				rep.evaluations += 1;
				let s = build(mask, how);
				if s != s0 || contents(s) != mv {
					fail(&mut rep, "construction", format!("set {:?} built in way {} has contents {:?} (== first construction: {})", mv, how, contents(s), s == s0));
				}
			}
			let s = s0;
			if s.len() != m.len() || s.is_empty() != m.is_empty() {
				fail(&mut rep, "len", format!("set {:?}: len {} is_empty {}", mv, s.len(), s.is_empty()));
			}
			if (s == KindSet::all()) != (mask == 63) || (s == KindSet::none()) != (mask == 0) {
				fail(&mut rep, "constants", format!("set {:?} compared with all()/none()", mv));
			}
			// forward iteration ascending, IntoIterator for &KindSet and KindSet
			let a: Vec<Kind> = (&s).into_iter().collect();
			let b: Vec<Kind> = s.into_iter().collect();
			let back: Vec<Kind> = s.iter().rev().collect();
			let mut rev = mv.clone();
			rev.reverse();
			if a != mv || b != mv || back != rev {
				fail(&mut rep, "iteration", format!("set {:?}: forward {:?} / {:?}, backward {:?}", mv, a, b, back));
			}
			// every other way of consuming the iterator (nth, nth_back, skip, step_by, rev, count, last, fold)
			match crate::monitor::check_iter(&format!("iter() of {:?}", mv), &|| s.iter(), &mv) {
				Ok(n) => rep.evaluations += n,
				Err(m) => fail(&mut rep, "iterator-protocol", m),
			}
			match crate::monitor::check_iter_back(&format!("iter() of {:?}", mv), &|| s.iter(), &mv) {
				Ok(n) => rep.evaluations += n,
				Err(m) => fail(&mut rep, "iterator-protocol", m),
			}
			// every sequence of up to 3 partially consuming calls, every whole-iterator method after each
			match method_sequences(&mv, &|| s.iter()) {
				Ok(n) => {
					rep.evaluations += n;
					rep.count("iterator_method_sequences", n);
				}
				Err(m) => fail(&mut rep, "iterator-protocol", m),
			}
			// every interleaving of next / next_back of length 0..=7
			for len in 0..=7usize {
				for pat in 0..(1usize << len) {
					rep.evaluations += 1;
					let mut it = s.iter();
					let mut lo = 0usize;
					let mut hi = mv.len();
					for step in 0..len {
						let remaining = hi - lo;
						if it.size_hint() != (remaining, Some(remaining)) || it.len() != remaining {
							fail(&mut rep, "size_hint", format!("set {:?} pattern {:0w$b}: size_hint {:?} len {} with {} remaining", mv, pat, it.size_hint(), it.len(), remaining, w = len));
						}
						let front = pat >> step & 1 == 0;
						let got = if front { it.next() } else { it.next_back() };
						let want = if lo < hi {
							if front {
								lo += 1;
								Some(mv[lo - 1])
							} else {
								hi -= 1;
								Some(mv[hi])
							}
						} else {
							None
						};
						if got != want {
							fail(&mut rep, "double-ended", format!("set {:?} pattern {:0w$b} step {}: {} yields {:?}, expected {:?}", mv, pat, step, if front { "next" } else { "next_back" }, got, want, w = len));
						}
					}
				}
			}
			// renderings
			let d = s.as_disjunction().to_string();
			let c = s.as_conjunction().to_string();
			let plain = s.to_string();
			let want_plain = mv.iter().map(|k| name(*k)).collect::<Vec<_>>().join(", ");
			if d != render(&m, "or") || c != render(&m, "and") || plain != want_plain {
				fail(&mut rep, "rendering", format!("set {:?}: disjunction {:?} conjunction {:?} display {:?}", mv, d, c, plain));
			}
			rep.evaluations += 3;
			// a format specification may be ignored or applied to the rendering as a whole, never to each member
			macro_rules! spec {
				($fmt:literal) => {{
					for (what, got, plain) in [
						("as_disjunction", format!($fmt, s.as_disjunction()), render(&m, "or")),
						("as_conjunction", format!($fmt, s.as_conjunction()), render(&m, "and")),
						("Display", format!($fmt, s), want_plain.clone()),
					] {
						rep.evaluations += 1;
						let whole = format!($fmt, plain.as_str());
						if got != plain && got != whole {
							fail(&mut rep, "rendering-with-format-spec", format!("set {:?}: {} under `{}` gives {:?}; expected {:?} (spec ignored) or {:?} (spec applied to the whole text)", mv, what, $fmt, got, plain, whole));
						}
					}
				}};
			}
			spec!("{:9}");
			spec!("{:.3}");
			spec!("{:>12}");
			spec!("{:^7.2}");
			spec!("{:#}");
			spec!("{:+}");
			// set x set
			for mask2 in 0..64usize {
				rep.evaluations += 1;
				let t = build(mask2, mask % 5);
				let m2 = model(mask2);
				let u: Vec<Kind> = m.union(&m2).copied().collect();
				let i: Vec<Kind> = m.intersection(&m2).copied().collect();
				let mut ua = s;
				ua |= t;
				let mut ia = s;
				ia &= t;
				if contents(s | t) != u || contents(s & t) != i || contents(ua) != u || contents(ia) != i {
					fail(&mut rep, "set-set", format!("{:?} with {:?}: | {:?} & {:?} |= {:?} &= {:?}", mv, m2, contents(s | t), contents(s & t), contents(ua), contents(ia)));
				}
				if (s == t) != (mask == mask2) {
					fail(&mut rep, "set-eq", format!("{:?} == {:?} gives {}", mv, m2, s == t));
				}
			}
			// set x kind, kind x set
			for k in KINDS {
				rep.evaluations += 1;
				let mut u = m.clone();
				u.insert(k);
				let u: Vec<Kind> = u.into_iter().collect();
				let i: Vec<Kind> = if m.contains(&k) { vec![k] } else { vec![] };
				let mut ua = s;
				ua |= k;
				let mut ia = s;
				ia &= k;
				if contents(s | k) != u || contents(k | s) != u || contents(ua) != u || contents(s & k) != i || contents(k & s) != i || contents(ia) != i {
					fail(
						&mut rep,
						"set-kind",
						format!("{:?} with {:?}: s|k {:?} k|s {:?} |= {:?} s&k {:?} k&s {:?} &= {:?}", mv, k, contents(s | k), contents(k | s), contents(ua), contents(s & k), contents(k & s), contents(ia)),
					);
				}
			}
		}
		// kind x kind
		for a in KINDS {
			for b in KINDS {
				rep.evaluations += 1;
				let mut u: MSet = MSet::new();
				u.insert(a);
				u.insert(b);
				let u: Vec<Kind> = u.into_iter().collect();
				let i: Vec<Kind> = if a == b { vec![a] } else { vec![] };
				if contents(a | b) != u || contents(a & b) != i {
					fail(&mut rep, "kind-kind", format!("{:?} with {:?}: | {:?} & {:?}", a, b, contents(a | b), contents(a & b)));
				}
			}
			if a.to_string() != name(a) || contents(KindSet::from(a)) != vec![a] {
				fail(&mut rep, "kind-display", format!("{:?} displays as {:?}", a, a.to_string()));
			}
		}
		// Value::kind / is_kind
		let samples: [(Value, Kind); 7] = [
			(Value::Null, Kind::Null),
			(Value::Boolean(true), Kind::Boolean),
			(Value::Boolean(false), Kind::Boolean),
			(Value::Number(7u8.into()), Kind::Number),
			(Value::String("x".into()), Kind::String),
			(Value::Array(vec![Value::Null]), Kind::Array),
			(Value::Object(json_syntax::Object::new()), Kind::Object),
		];
		// the predicates, accessors and conversions that report or depend on the kind of a value
		for (v, k) in &samples {
			rep.evaluations += 1;
			let preds = [v.is_null(), v.is_boolean(), v.is_number(), v.is_string(), v.is_array(), v.is_object()];
			let want: Vec<bool> = KINDS.iter().map(|x| x == k).collect();
			if preds.to_vec() != want {
				fail(&mut rep, "value-kind", format!("{:?}: is_null/is_boolean/is_number/is_string/is_array/is_object = {:?}", v, preds));
			}
			let refs = [false, v.as_boolean().is_some(), v.as_number().is_some(), v.as_string().is_some() && v.as_str().is_some(), v.as_array().is_some(), v.as_object().is_some()];
			let mut m = v.clone();
			let muts = [false, m.as_boolean_mut().is_some(), m.as_number_mut().is_some(), m.as_string_mut().is_some(), m.as_array_mut().is_some(), m.as_object_mut().is_some()];
			let intos = [false, v.clone().into_boolean().is_some(), v.clone().into_number().is_some(), v.clone().into_string().is_some(), v.clone().into_array().is_some(), v.clone().into_object().is_some()];
			for (i, kk) in KINDS.iter().enumerate().skip(1) {
				if refs[i] != (kk == k) || muts[i] != (kk == k) || intos[i] != (kk == k) {
					fail(&mut rep, "value-kind", format!("{:?}: as_/as_..._mut/into_ accessors for {:?} give {} / {} / {}", v, kk, refs[i], muts[i], intos[i]));
				}
			}
			let fa = v.force_as_array();
			let ok_fa = match v {
				Value::Array(a) => fa.len() == a.len() && fa.as_ptr() == a.as_ptr(),
				other => fa.len() == 1 && std::ptr::eq(&fa[0], other),
			};
			let empty = matches!(v, Value::Array(a) if a.is_empty()) || matches!(v, Value::Object(o) if o.is_empty());
			let mut t = v.clone();
			let taken = t.take();
			if !ok_fa || v.is_empty_array_or_object() != empty || taken != *v || !t.is_null() {
				fail(&mut rep, "value-kind", format!("{:?}: force_as_array / is_empty_array_or_object / take disagree with the variant", v));
			}
		}
		{
			rep.evaluations += 1;
			let from_kinds: Vec<(Value, Kind, &str)> = vec![
				(Value::from(true), Kind::Boolean, "true"),
				(Value::from("s"), Kind::String, "\"s\""),
				(Value::from(String::from("s")), Kind::String, "\"s\""),
				(Value::from(json_syntax::String::from("s")), Kind::String, "\"s\""),
				(Value::from(vec![Value::Null]), Kind::Array, "[null]"),
				(Value::from(json_syntax::Object::new()), Kind::Object, "{}"),
				(Value::from(json_syntax::NumberBuf::from(7u8)), Kind::Number, "7"),
				(Value::from(u8::MAX), Kind::Number, "255"),
				(Value::from(u16::MAX), Kind::Number, "65535"),
				(Value::from(u32::MAX), Kind::Number, "4294967295"),
				(Value::from(u64::MAX), Kind::Number, "18446744073709551615"),
				(Value::from(i8::MIN), Kind::Number, "-128"),
				(Value::from(i16::MIN), Kind::Number, "-32768"),
				(Value::from(i32::MIN), Kind::Number, "-2147483648"),
				(Value::from(i64::MIN), Kind::Number, "-9223372036854775808"),
			];
			for (v, k, text) in from_kinds {
				if v.kind() != k || v.to_string() != text {
					fail(&mut rep, "value-kind", format!("a From conversion gives {:?} (kind {:?}), expected {} of kind {:?}", v, v.kind(), text, k));
				}
			}
			let f64_ok = Value::try_from(1.5f64).map(|v| (v.kind(), v.to_string()));
			let f32_ok = Value::try_from(0.25f32).map(|v| (v.kind(), v.to_string()));
			if !matches!(&f64_ok, Ok((Kind::Number, t)) if t == "1.5") || !matches!(&f32_ok, Ok((Kind::Number, t)) if t == "0.25") || Value::try_from(f64::NAN).is_ok() || Value::try_from(f32::INFINITY).is_ok() {
				fail(&mut rep, "value-kind", format!("TryFrom<f64/f32>: {:?} / {:?} (non-finite values must be refused)", f64_ok.map_err(|_| ()), f32_ok.map_err(|_| ())));
			}
		}
		// the kind reported for a value by a failed conversion (`Unexpected::found`) is the kind of
		// that value
		for text in ["null", "true", "false", "7", "-1.5e3", "\"x\"", "[null]", "[]", "[[null],[]]", "{}", "{\"a\":null}", "[1]", "{\"a\":[true]}"] {
			use json_syntax::Parse;
			let (v, cm) = Value::parse_str(text).expect("sample document");
			let v = &v;
			for (what, r) in conversions(v, &cm) {
				rep.evaluations += 1;
				if let Some((at, expected, found, text)) = r {
					// the kind reported must be the kind of a value of the document (of the document itself
					// when it is a scalar; where the error points is C11's business, its wording nobody's)
					let kinds: BTreeSet<Kind> = v.traverse().filter_map(|(_, f)| match f {
						json_syntax::FragmentRef::Value(x) => Some(x.kind()),
						_ => None,
					}).collect();
					if !kinds.contains(&found) {
						fail(&mut rep, "conversion-error-kind", format!("{} of {} fails with found = {:?} (at fragment {}), but the document only holds values of kinds {:?}; expected = {:?}, message {:?}", what, text_of(v), found, at, kinds, contents(expected), text));
					}
				}
			}
		}
		for (v, k) in &samples {
			for k2 in KINDS {
				rep.evaluations += 1;
				if v.kind() != *k || v.is_kind(k2) != (*k == k2) {
					fail(&mut rep, "value-kind", format!("{:?}: kind() {:?}, is_kind({:?}) {}", v, v.kind(), k2, v.is_kind(k2)));
				}
			}
		}
		rep
	});
	match r {
		Ok(r) => rep.merge(r),
		Err(p) => fail(&mut rep, "panic", format!("KindSet operation panicked: {}", p)),
	}
	rep.distinct_by_construction(rep.evaluations);
	rep.count("sets", 64);
	rep.count("set_pairs", 4096);
	rep.count("set_kind_pairs", 384);
	rep.count("kind_pairs", 36);
	rep.count("front_back_interleavings_per_set", 255);
	rep.sample(json!({"set": ["null", "string", "object"], "disjunction": "null, string or object", "interleaving": "next, next_back, next_back, next"}));
	conclude(
		cfg,
		EvidenceMeta {
			id: "C20",
			rule: "complete enumeration of the finite domain: all 64 sets (each built in 5 ways through the public API), all 64x64 set pairs (| & |= &= ==), all 64x6 set/kind pairs in both operand orders, all 6x6 kind pairs, every interleaving of next/next_back of length 0..7 on every set with size_hint/len checked before every step, every sequence of up to 3 calls among next / next_back / nth(k) / nth_back(k) (k in 0,1,2,7) against a double-ended-queue model with every whole-iterator method of Iterator / DoubleEndedIterator / ExactSizeIterator (collect, rev, count, last, min, max, min_by, max_by, *_by_key, fold, rfold, reduce, partition, eq, cmp, is_sorted, for_each, step_by, skip, take, chain, zip, enumerate, peekable, find, rfind, position, rposition, any, all, find_map, skip_while, take_while, and the items left after each searching method) applied to a copy after every prefix, Display / as_disjunction / as_conjunction of every set, Value::kind / is_kind, the is_ / as_ / as_mut / into_ accessors, force_as_array, take and the From / TryFrom conversions for a value of each variant; compared with a BTreeSet<Kind> model; each enumerated combination is distinct by construction and non-trivial",
			exhaustive: true,
			assumptions: vec!["renderings: nothing / single kind / 'a, b or c' / 'a, b and c' / anything, kinds in ascending order null < boolean < number < string < array < object".into()],
			extra: json!({}),
		},
		rep,
		started,
		1000,
	)
	.exit
}
