//! C14 (Eq / Ord / Hash coherent and content-only) and C15 (unordered
//! equality = equality up to permutation of object entries).

use crate::gen::{self, ValueParams};
use crate::monitor::conv::{from_rval, from_rval_push, to_rval};
use crate::monitor::{conclude, fnv, guard, parallel, show, Config, EvidenceMeta, Report, Tier};
use crate::oracle::print as pr;
use crate::oracle::rfc8259::{RVal, Reader};
use crate::rng::Rng;
use json_syntax::object::Entry;
use json_syntax::{BorrowUnordered, Object, Parse, Unordered, UnorderedPartialEq, Value};
use serde_json::json;
use std::cmp::Ordering;
use std::collections::hash_map::DefaultHasher;
use std::hash::{Hash, Hasher};
use std::time::Instant;

fn doc_of(v: &RVal) -> String {
	let mut s = String::new();
	pr::compact(v, &mut s);
	s
}

// ---------------------------------------------------------------------------
// C15
// ---------------------------------------------------------------------------

/// Normal form: objects' entries sorted by (key, normal form of the value);
/// arrays keep their order. Two values are equal up to permutation of object
/// entries at any depth iff their normal forms are equal.
pub fn normal_form(v: &RVal, out: &mut String) {
	match v {
		RVal::Arr(a) => {
			out.push('[');
			for (i, x) in a.iter().enumerate() {
				if i > 0 {
					out.push(',')
				}
				normal_form(x, out);
			}
			out.push(']');
		}
		RVal::Obj(o) => {
			let mut parts: Vec<(String, String)> = o
				.iter()
				.map(|(k, x)| {
					let mut s = String::new();
					normal_form(x, &mut s);
					(k.clone(), s)
				})
				.collect();
			parts.sort();
			out.push('{');
			for (i, (k, s)) in parts.iter().enumerate() {
				if i > 0 {
					out.push(',')
				}
				pr::write_string(k, out);
				out.push(':');
				out.push_str(s);
			}
			out.push('}');
		}
		other => pr::compact(other, out),
	}
}

fn nf(v: &RVal) -> String {
	let mut s = String::new();
	normal_form(v, &mut s);
	s
}

/// Canonical rendering of the number a JSON number literal denotes (exact decimal arithmetic on the
/// text): two literals get the same rendering iff they denote the same number.
fn num_norm(s: &str) -> String {
	let (neg, rest) = match s.strip_prefix('-') {
		Some(r) => (true, r),
		None => (false, s),
	};
	let (mant, exp) = match rest.find(|c| c == 'e' || c == 'E') {
		Some(i) => (&rest[..i], rest[i + 1..].trim_start_matches('+').parse::<i128>().unwrap_or(if rest[i + 1..].starts_with('-') { i128::MIN / 4 } else { i128::MAX / 4 })),
		None => (rest, 0),
	};
	let (int, frac) = match mant.find('.') {
		Some(i) => (&mant[..i], &mant[i + 1..]),
		None => (mant, ""),
	};
	let digits: String = format!("{}{}", int, frac);
	let mut point = int.len() as i128 + exp;
	let stripped = digits.trim_start_matches('0');
	point -= (digits.len() - stripped.len()) as i128;
	let stripped = stripped.trim_end_matches('0');
	if stripped.is_empty() {
		return "0".to_string();
	}
	format!("{}0.{}e{}", if neg { "-" } else { "" }, stripped, point)
}

/// The same tree with every number replaced by the canonical rendering of the number it denotes.
fn numeric_twin(v: &RVal) -> RVal {
	match v {
		RVal::Num(s) => RVal::Num(num_norm(s)),
		RVal::Arr(a) => RVal::Arr(a.iter().map(numeric_twin).collect()),
		RVal::Obj(e) => RVal::Obj(e.iter().map(|(k, v)| (k.clone(), numeric_twin(v))).collect()),
		x => x.clone(),
	}
}

fn c15_pair(rep: &mut Report, fam: &str, ra: &RVal, rb: &RVal, a: &Value, b: &Value, want: bool, full: bool) {
	rep.evaluations += 1;
	let case = || json!({"sub": "unordered-pair", "a": doc_of(ra), "b": doc_of(rb)});
	let got = match guard(|| a.unordered_eq(b)) {
		Ok(g) => g,
		Err(p) => {
			rep.violation("C15:panic", format!("[{}] unordered_eq panicked on {} / {}: {}", fam, show(doc_of(ra).as_bytes()), show(doc_of(rb).as_bytes()), p), case());
			return;
		}
	};
	if got && !want && nf(&numeric_twin(ra)) == nf(&numeric_twin(rb)) {
		// the two differ in the spelling of numbers only: whether such numbers are equal is not C15's
		// business (the crate compares spellings; a tree comparing them as numbers would not break C15)
		rep.count("pairs_equal_up_to_number_spelling_reported_equal(noted)", 1);
		return;
	}
	if got != want {
		rep.violation(
			if want { "C15:reports-unequal" } else { "C15:reports-equal" },
			format!("[{}] unordered_eq({}, {}) = {}, but a permutation of entries {} them into each other", fam, show(doc_of(ra).as_bytes()), show(doc_of(rb).as_bytes()), got, if want { "turns" } else { "cannot turn" }),
			case(),
		);
		return;
	}
	if want {
		rep.count("pairs_equal_up_to_permutation", 1)
	} else {
		rep.count("pairs_different", 1)
	}
	if full {
		let sym = guard(|| b.unordered_eq(a)).unwrap_or(!want);
		if sym != want {
			rep.violation("C15:asymmetric", format!("[{}] unordered_eq({}, {}) = {} but reversed = {}", fam, show(doc_of(ra).as_bytes()), show(doc_of(rb).as_bytes()), got, sym), case());
		}
		let via_view = guard(|| a.as_unordered() == b.as_unordered()).unwrap_or(!want);
		let via_wrapper = guard(|| Unordered(a.clone()) == Unordered(b.clone())).unwrap_or(!want);
		if via_view != want || via_wrapper != want {
			rep.violation("C15:wrapper-disagrees", format!("[{}] as_unordered()== gives {}, Unordered()== gives {}, expected {}", fam, via_view, via_wrapper, want), case());
		}
		if a == b && !got {
			rep.violation("C15:eq-not-implied", format!("[{}] a == b but unordered_eq is false for {}", fam, show(doc_of(ra).as_bytes())), case());
		}
		// the impls for annotated values (`locspan::Meta`) and vectors of them
		{
			use locspan::Meta;
			let (ma, mb) = (Meta(a.clone(), 7u8), Meta(b.clone(), 7u8));
			let g = guard(|| ma.unordered_eq(&mb)).unwrap_or(!want);
			let gv = guard(|| vec![ma.clone(), mb.clone()].unordered_eq(&vec![mb.clone(), ma.clone()])).unwrap_or(!want);
			if g != want || gv != want {
				rep.violation("C15:meta-impl", format!("[{}] Meta(a,m).unordered_eq(Meta(b,m)) = {}, Vec<Meta> = {}; expected {}", fam, g, gv, want), case());
			}
		}
		// objects compared directly too
		if let (Value::Object(oa), Value::Object(ob)) = (a, b) {
			let g = guard(|| oa.unordered_eq(ob)).unwrap_or(!want);
			let g2 = guard(|| oa.as_unordered() == ob.as_unordered()).unwrap_or(!want);
			if g != want || g2 != want {
				rep.violation("C15:object-level", format!("[{}] Object::unordered_eq gives {} / {}, expected {}", fam, g, g2, want), case());
			}
		}
	}
}

fn small_values(thorough: bool) -> Vec<RVal> {
	let mut rd = Reader::new();
	let mut docs = vec!["1", "2", "{\"k\":1,\"k\":2}", "{\"k\":2,\"k\":1}", "[1,2]", "[1]", "[{\"k\":1,\"l\":2}]", "[{\"l\":2,\"k\":1}]"];
	if thorough {
		docs.extend(["{}", "[]", "{\"k\":1}", "[1,2,1]"]);
	}
	docs.iter().map(|d| rd.read(d.as_bytes(), true).root.unwrap()).collect()
}

/// All objects of at most `max` entries over keys {k, l} and the small values.
fn small_objects(max: usize, thorough: bool) -> Vec<RVal> {
	let vals = small_values(thorough);
	let keys = ["k", "l"];
	let mut out = vec![RVal::Obj(vec![])];
	let mut layer: Vec<Vec<(String, RVal)>> = vec![vec![]];
	for _ in 0..max {
		let mut next = Vec::new();
		for e in &layer {
			for k in keys {
				for v in &vals {
					let mut x = e.clone();
					x.push((k.to_string(), v.clone()));
					next.push(x);
				}
			}
		}
		out.extend(next.iter().map(|e| RVal::Obj(e.clone())));
		layer = next;
	}
	out
}

fn shuffle_deep(rng: &mut Rng, v: &RVal) -> RVal {
	match v {
		RVal::Arr(a) => RVal::Arr(a.iter().map(|x| shuffle_deep(rng, x)).collect()),
		RVal::Obj(o) => {
			let mut e: Vec<(String, RVal)> = o.iter().map(|(k, x)| (k.clone(), shuffle_deep(rng, x))).collect();
			rng.shuffle(&mut e);
			RVal::Obj(e)
		}
		other => other.clone(),
	}
}

/// One small mutation somewhere in the tree (leaf, key, multiplicity, array length, array order).
fn mutate_once(rng: &mut Rng, v: &RVal) -> RVal {
	match v {
		RVal::Arr(a) if !a.is_empty() && rng.chance(2, 3) => {
			let mut a = a.clone();
			let i = rng.below(a.len());
			match rng.below(5) {
				0 => {
					a.remove(i);
				}
				1 => {
					let x = a[i].clone();
					a.insert(i, x)
				}
				2 => a.push(RVal::Null),
				3 if a.len() > 1 => {
					let j = rng.below(a.len());
					a.swap(i, j)
				}
				_ => a[i] = mutate_once(rng, &a[i]),
			}
			RVal::Arr(a)
		}
		RVal::Obj(o) if !o.is_empty() && rng.chance(2, 3) => {
			let mut o = o.clone();
			let i = rng.below(o.len());
			match rng.below(6) {
				0 => {
					o.remove(i);
				}
				1 => {
					let x = o[i].clone();
					o.push(x)
				}
				2 => o[i].0.push('x'),
				3 => {
					// move multiplicity from one duplicate to another
					let j = rng.below(o.len());
					o[i].1 = o[j].1.clone()
				}
				4 => {
					let j = rng.below(o.len());
					let k = o[j].0.clone();
					o[i].0 = k
				}
				_ => o[i].1 = mutate_once(rng, &o[i].1),
			}
			RVal::Obj(o)
		}
		RVal::Arr(_) => RVal::Arr(vec![RVal::Null]),
		RVal::Obj(_) => RVal::Obj(vec![("x".into(), RVal::Null)]),
		RVal::Num(n) => RVal::Num(format!("1{}", n.replace(['e', 'E', '+', '-', '.'], ""))),
		RVal::Str(s) => RVal::Str(format!("{}~", s)),
		RVal::Bool(b) => RVal::Bool(!b),
		RVal::Null => RVal::Bool(false),
	}
}

pub fn run_c15(cfg: &Config) -> i32 {
	let started = Instant::now();
	let thorough = cfg.tier == Tier::Thorough;
	let mut total = Report::new();
	let seed = cfg.seed;

	if !cfg.san {
		// exhaustive: every ordered pair of small objects
		let objs = small_objects(3, false);
		let nfs: Vec<String> = objs.iter().map(nf).collect();
		let vals: Vec<Value> = objs.iter().enumerate().map(|(i, o)| if i % 2 == 0 { from_rval(o) } else { from_rval_push(o) }).collect();
		let n = objs.len();
		total.count("small_objects_enumerated", n as u64);
		let (objs, nfs, vals) = (std::sync::Arc::new(objs), std::sync::Arc::new(nfs), std::sync::Arc::new(vals));
		let rep = parallel(cfg.threads, n, |i| {
			let mut rep = Report::new();
			for j in 0..n {
				let want = nfs[i] == nfs[j];
				c15_pair(&mut rep, "all-pairs-of-small-objects", &objs[i], &objs[j], &vals[i], &vals[j], want, (i + j) % 16 == 0 || want);
			}
			rep.distinct_by_construction(n as u64);
			if i == 77 {
				rep.sample(json!({"family": "all-pairs-of-small-objects", "a": doc_of(&objs[i]), "b": doc_of(&objs[(i * 7) % n])}));
			}
			rep
		});
		total.merge(rep);
		if thorough {
			// <= 4 entries over the larger value set: sampled pairs
			let objs = small_objects(4, true);
			let n = objs.len();
			total.count("small_objects_enumerated_thorough", n as u64);
			let objs = std::sync::Arc::new(objs);
			let pairs = cfg.budget(0, 50_000_000);
			let rep = parallel(cfg.threads, 64, |s| {
				let mut rep = Report::new();
				let mut rng = Rng::new(seed).fork(0xc15a + s as u64);
				for _ in 0..pairs / 64 {
					let i = rng.below(n);
					// bias toward related objects: same multiset of keys
					let j = if rng.chance(1, 2) { rng.below(n) } else { (i + rng.below(40)) % n };
					let (a, b) = (&objs[i], &objs[j]);
					let want = nf(a) == nf(b);
					rep.distinct_hash((i as u64) << 32 | j as u64);
					c15_pair(&mut rep, "sampled-pairs-of-small-objects", a, b, &from_rval(a), &from_rval(b), want, want);
				}
				rep
			});
			total.merge(rep);
		}
	}

	// random values: deep shuffles (must be equal) and single mutations (oracle decides)
	let n = cfg.budget(1_000_000, 20_000_000);
	// every shard runs at least one case of each family: fewer shards under the interpreter
	let shards = if cfg!(miri) { 6usize } else { 64usize };
	let rep = parallel(cfg.threads, shards, |i| {
		let mut rep = Report::new();
		let mut rng = Rng::new(seed).fork(0xc15 + i as u64);
		for k in 0..(n / shards as u64).max(1) {
			let p = ValueParams {
				max_depth: 1 + rng.below(5),
				max_width: 1 + rng.below(6),
				..Default::default()
			};
			let a = gen::gen_value(&mut rng, &p, 0);
			let b = if rng.chance(1, 2) {
				shuffle_deep(&mut rng, &a)
			} else {
				let m = mutate_once(&mut rng, &a);
				if rng.chance(1, 2) {
					shuffle_deep(&mut rng, &m)
				} else {
					m
				}
			};
			let want = nf(&a) == nf(&b);
			rep.distinct_hash(fnv(format!("{}|{}", doc_of(&a), doc_of(&b)).as_bytes()));
			c15_pair(&mut rep, "random-values", &a, &b, &from_rval(&a), &from_rval_push(&b), want, true);
			if i == 0 && k < 2 {
				rep.sample(json!({"family": "random-values", "a": show(doc_of(&a).as_bytes()), "b": show(doc_of(&b).as_bytes()), "equal_up_to_permutation": want}));
			}
		}
		rep
	});
	total.merge(rep);

	// many duplicates of one key (beyond any small-size fast path) whose values are nested objects in permuted order
	let rep = parallel(cfg.threads, if cfg!(miri) { 2 } else { 16 }, |i| {
		let mut rep = Report::new();
		let mut rng = Rng::new(seed).fork(0xc15d + i as u64);
		let sizes: &[usize] = if cfg!(miri) { &[2, 17, 33] } else { &[2, 8, 15, 16, 17, 31, 32, 33, 34, 40, 64, 65, 100, 130] };
		for &n in sizes {
			let nested = |rng: &mut Rng, flip: bool| -> Vec<RVal> {
				let mut v = Vec::new();
				for t in 0..3 {
					let mut e = vec![("a".to_string(), RVal::Num("1".into())), ("b".to_string(), RVal::Num((2 + t).to_string())), ("c".to_string(), RVal::Arr(vec![RVal::Obj(vec![("x".into(), RVal::Null), ("y".into(), RVal::Bool(true))])]))];
					if flip && rng.chance(2, 3) {
						rng.shuffle(&mut e);
						if let RVal::Arr(a) = &mut e.iter_mut().find(|x| x.0 == "c").unwrap().1 {
							if let RVal::Obj(o) = &mut a[0] {
								o.reverse()
							}
						}
					}
					v.push(RVal::Obj(e));
				}
				v
			};
			let fill = |vals: Vec<RVal>, n: usize| -> Vec<(String, RVal)> {
				let mut e: Vec<(String, RVal)> = vals.into_iter().map(|v| ("k".to_string(), v)).collect();
				let mut j = 0;
				while e.len() < n {
					e.push(("k".to_string(), RVal::Num((j % 5).to_string())));
					j += 1;
				}
				e
			};
			let ea = fill(nested(&mut rng, false), n.max(3));
			let mut eb = fill(nested(&mut rng, true), n.max(3));
			rng.shuffle(&mut eb);
			let mut ec = eb.clone();
			// a third operand with one multiplicity changed
			let last = ec.len() - 1;
			ec[last].1 = ec[0].1.clone();
			let (a, b, c) = (RVal::Obj(ea), RVal::Obj(eb), RVal::Obj(ec));
			for (x, y) in [(&a, &b), (&b, &a), (&a, &c), (&c, &b)] {
				let want = nf(x) == nf(y);
				c15_pair(&mut rep, "many-duplicates-of-one-key", x, y, &from_rval(x), &from_rval_push(y), want, true);
				rep.distinct_by_construction(1);
			}
			// the same, nested inside another document
			let wa = RVal::Arr(vec![RVal::Obj(vec![("outer".into(), a.clone()), ("z".into(), RVal::Null)])]);
			let wb = RVal::Arr(vec![RVal::Obj(vec![("z".into(), RVal::Null), ("outer".into(), b.clone())])]);
			c15_pair(&mut rep, "many-duplicates-of-one-key", &wa, &wb, &from_rval(&wa), &from_rval(&wb), nf(&wa) == nf(&wb), true);
			rep.max("most_duplicates_of_one_key", n as u64);
		}
		rep
	});
	total.merge(rep);

	// a key bound to several entries whose values nest permuted objects under arrays (of arrays ...) and
	// objects: the reversed copy (entries reversed at every level) must compare equal, the copy with one
	// innermost scalar changed must not
	{
		fn reverse_deep(v: &RVal) -> RVal {
			match v {
				RVal::Arr(a) => RVal::Arr(a.iter().map(reverse_deep).collect()),
				RVal::Obj(e) => RVal::Obj(e.iter().rev().map(|(k, v)| (k.clone(), reverse_deep(v))).collect()),
				x => x.clone(),
			}
		}
		fn wrap(shape: usize, inner: RVal) -> RVal {
			match shape {
				0 => inner,
				1 => RVal::Arr(vec![inner]),
				2 => RVal::Arr(vec![RVal::Arr(vec![inner])]),
				3 => RVal::Arr(vec![RVal::Arr(vec![RVal::Arr(vec![inner])])]),
				4 => RVal::Obj(vec![("z".into(), RVal::Arr(vec![inner]))]),
				5 => RVal::Obj(vec![("z".into(), RVal::Arr(vec![RVal::Arr(vec![inner])]))]),
				6 => RVal::Arr(vec![RVal::Null, RVal::Arr(vec![RVal::Num("0".into()), inner]), RVal::Str("t".into())]),
				_ => RVal::Arr(vec![RVal::Obj(vec![("w".into(), RVal::Arr(vec![inner.clone()])), ("v".into(), inner)])]),
			}
		}
		let mut rep = Report::new();
		let leaf = |x: &str| RVal::Obj(vec![("x".into(), RVal::Num(x.into())), ("y".into(), RVal::Num("2".into())), ("x".into(), RVal::Str("s".into()))]);
		for shape in 0..8usize {
			for dups in 1..=3usize {
				for other_shape in 0..8usize {
					if (cfg!(miri) || cfg.san) && (shape * 3 + other_shape + dups) % 8 != 0 {
						continue;
					}
					let mut e: Vec<(String, RVal)> = vec![("a".into(), wrap(shape, leaf("1")))];
					for d in 1..dups {
						e.push(("a".into(), if d == 1 { wrap(other_shape, leaf("1")) } else { RVal::Num("5".into()) }));
					}
					e.push(("b".into(), RVal::Null));
					let a = RVal::Obj(e.clone());
					let b = reverse_deep(&a);
					let mut e2 = e.clone();
					e2[0].1 = wrap(shape, leaf("3"));
					let c = reverse_deep(&RVal::Obj(e2));
					for (x, y) in [(&a, &b), (&b, &a), (&a, &c), (&c, &a)] {
						let want = nf(x) == nf(y);
						c15_pair(&mut rep, "duplicate-keys-with-nested-permuted-values", x, y, &from_rval(x), &from_rval_push(y), want, true);
						rep.distinct_by_construction(1);
					}
				}
			}
		}
		total.merge(rep);
	}

	// wide objects (beyond any inline buffer) in which one side repeats a key and the other does not
	let rep = parallel(cfg.threads, if cfg!(miri) { 2 } else { 16 }, |i| {
		let mut rep = Report::new();
		let mut rng = Rng::new(seed).fork(0xc15f + i as u64);
		let sizes: &[usize] = if cfg!(miri) { &[5, 17, 33] } else { &[5, 16, 17, 31, 32, 33, 34, 40, 64, 65, 100, 257] };
		for &n in sizes {
			let base: Vec<(String, RVal)> = (0..n).map(|j| (format!("k{}", j), RVal::Num((j % 7).to_string()))).collect();
			// b: the last entry replaced by a second copy of an earlier one (same value): same length, different multiset
			let mut dup = base.clone();
			let j = rng.below(n - 1);
			let copy = dup[j].clone();
			*dup.last_mut().unwrap() = copy;
			let mut shuffled = base.clone();
			rng.shuffle(&mut shuffled);
			let mut dup_shuffled = dup.clone();
			rng.shuffle(&mut dup_shuffled);
			let objs = [RVal::Obj(base), RVal::Obj(dup), RVal::Obj(shuffled), RVal::Obj(dup_shuffled)];
			for x in 0..4 {
				for y in 0..4 {
					let want = nf(&objs[x]) == nf(&objs[y]);
					c15_pair(&mut rep, "wide-objects-with-one-duplicate", &objs[x], &objs[y], &from_rval(&objs[x]), &from_rval_push(&objs[y]), want, true);
					rep.distinct_by_construction(1);
				}
			}
			rep.max("widest_compared_object", n as u64);
		}
		rep
	});
	total.merge(rep);

	// objects with several duplicates of a key after every sequence of up to 3 removals by position:
	// compared with a permuted fresh copy of what is left (equal) and with copies in which one entry
	// moved to another key (different unless the normal forms coincide)
	if !cfg!(miri) {
		let layouts: Vec<Vec<(&str, &str)>> = vec![
			vec![("a", "1"), ("a", "2"), ("a", "3"), ("a", "4"), ("b", "9")],
			vec![("b", "9"), ("a", "1"), ("a", "2"), ("a", "3"), ("a", "4"), ("a", "5")],
			vec![("a", "1"), ("b", "1"), ("a", "2"), ("b", "2"), ("a", "3"), ("b", "3"), ("a", "4")],
			vec![("a", "1"), ("a", "1"), ("a", "2"), ("a", "2"), ("c", "1"), ("a", "3")],
		];
		let layouts = std::sync::Arc::new(layouts);
		let rep = parallel(cfg.threads, layouts.len(), |li| {
			let mut rep = Report::new();
			let base = &layouts[li];
			let n = base.len();
			let mut seqs: Vec<Vec<usize>> = vec![vec![]];
			let mut layer: Vec<Vec<usize>> = vec![vec![]];
			for depth in 0..(if cfg.san { 2 } else { 3 }) {
				let mut next = Vec::new();
				for sq in &layer {
					for p in 0..(n - depth) {
						let mut x = sq.clone();
						x.push(p);
						next.push(x);
					}
				}
				seqs.extend(next.iter().cloned());
				layer = next;
			}
			for sq in seqs {
				let mut o = json_syntax::Object::new();
				let mut model: Vec<(String, RVal)> = Vec::new();
				for (k, v) in base.iter() {
					o.push((*k).into(), Value::Number(v.parse::<u32>().unwrap().into()));
					model.push((k.to_string(), RVal::Num(v.to_string())));
				}
				for &p in &sq {
					o.remove_at(p);
					model.remove(p);
				}
				let ra = RVal::Obj(model.clone());
				let a = Value::Object(o);
				// (i) a fresh copy with the entries reversed
				let mut rev = model.clone();
				rev.reverse();
				let rb = RVal::Obj(rev);
				let b = from_rval(&rb);
				rep.distinct_by_construction(1);
				c15_pair(&mut rep, "duplicates-after-removals-by-position", &ra, &rb, &a, &b, true, true);
				c15_pair(&mut rep, "duplicates-after-removals-by-position", &rb, &ra, &b, &a, true, true);
				// (ii) one entry moved to another key
				for j in 0..model.len() {
					for other in ["a", "b", "c"] {
						if model[j].0 == other {
							continue;
						}
						let mut alt = model.clone();
						alt[j].0 = other.to_string();
						alt.rotate_left(1);
						let rc = RVal::Obj(alt);
						let c = from_rval_push(&rc);
						let want = nf(&ra) == nf(&rc);
						c15_pair(&mut rep, "duplicates-after-removals-by-position", &ra, &rc, &a, &c, want, true);
						c15_pair(&mut rep, "duplicates-after-removals-by-position", &rc, &ra, &c, &a, want, true);
					}
				}
			}
			rep
		});
		total.merge(rep);
	}

	// operands that went through object operations (sort applied 0-3 times at every level, rebuilds,
	// removals and re-insertions) against freshly built permutations of the same content
	let n = cfg.budget(200_000, 4_000_000);
	let rep = parallel(cfg.threads, if cfg!(miri) { 6 } else { 64 }, |i| {
		fn churn(rng: &mut Rng, v: &mut Value) {
			match v {
				Value::Array(a) => {
					for x in a.iter_mut() {
						churn(rng, x)
					}
				}
				Value::Object(o) => {
					for (_, x) in o.iter_mut() {
						churn(rng, x)
					}
					for _ in 0..rng.below(4) {
						match rng.below(5) {
							0 | 1 => o.sort(),
							4 => o.canonicalize(),
							2 => {
								// remove an entry and push it back (changes the order, not the content)
								if !o.is_empty() {
									let i = rng.below(o.len());
									if let Some(e) = o.remove_at(i) {
										if rng.chance(1, 2) {
											o.push_entry(e);
										} else {
											o.push_entry_front(e);
										}
									}
								}
							}
							_ => match rng.below(3) {
								0 => {
									let c = o.clone();
									*o = c;
								}
								1 => {
									// filled through clone_from, from a used target
									let mut t = json_syntax::Object::new();
									t.push("old".into(), Value::Null);
									t.clone_from(o);
									*o = t;
								}
								_ => {
									// grown to dozens of distinct keys, then cut back by removals from the front
									let extra = 30 + rng.below(40);
									for j in 0..extra {
										o.push_front(format!("\u{1}junk{}", j).as_str().into(), Value::Null);
									}
									for _ in 0..extra {
										o.remove_at(0);
									}
								}
							},
						}
					}
				}
				_ => (),
			}
		}
		let mut rep = Report::new();
		let mut rng = Rng::new(seed).fork(0xc15e + i as u64);
		for _ in 0..(n / 64).max(1) {
			let p = ValueParams {
				max_depth: 1 + rng.below(4),
				max_width: 1 + rng.below(6),
				..Default::default()
			};
			let ra = gen::gen_value(&mut rng, &p, 0);
			let mut a = from_rval(&ra);
			if let Err(p) = guard(std::panic::AssertUnwindSafe(|| churn(&mut rng, &mut a))) {
				rep.evaluations += 1;
				rep.violation("C15:panic", format!("an object operation (sort / canonicalize / remove_at / push / clone_from) panicked while preparing an operand from {}: {}", show(doc_of(&ra).as_bytes()), p), json!({"sub": "unordered-pair", "a": doc_of(&ra), "b": doc_of(&ra)}));
				continue;
			}
			let ra2 = to_rval(&a);
			let rb = if rng.chance(2, 3) { shuffle_deep(&mut rng, &ra2) } else { mutate_once(&mut rng, &ra2) };
			let mut b = from_rval(&rb);
			// half of the time the other operand has a history of its own (both sorted, one sorted and one
			// canonicalized, ...)
			if rng.chance(1, 2) {
				churn(&mut rng, &mut b);
			}
			let rb = to_rval(&b);
			let want = nf(&ra2) == nf(&rb);
			rep.distinct_hash(fnv(format!("{}|{}", doc_of(&ra2), doc_of(&rb)).as_bytes()));
			c15_pair(&mut rep, "operands-through-object-operations", &ra2, &rb, &a, &b, want, true);
		}
		rep
	});
	total.merge(rep);

	conclude(
		cfg,
		EvidenceMeta {
			id: "C15",
			rule: "a case is an ordered pair of values; expected verdict = equality of recursively sorted normal forms; exhaustive: every ordered pair of the objects with at most 3 entries over keys {k,l} and 8 values (scalars, objects with duplicate keys in both orders, arrays of different lengths, objects nested under arrays in both member orders); thorough adds sampled pairs of objects with at most 4 entries over 12 values; random: generated values against deep shuffles of themselves and against single mutations (leaf, key, multiplicity, array length/order), shuffled or not; objects with 2..130 entries under one key whose values are nested objects in permuted member order; operands that first went through object operations (sort / canonicalize 0-3 times at every level, remove + re-push, clone) against fresh permutations and against permutations with a history of their own; wide objects (5..257 entries) where one side repeats a key; objects with 4-5 duplicates of a key after every sequence of up to 3 removals by position, against reversed fresh copies and against copies with one entry moved to another key; the impls for locspan::Meta and Vec<Meta>; checked through UnorderedPartialEq::unordered_eq in both argument orders, Unordered(a)==Unordered(b), as_unordered(), on Value and on Object; distinct by construction / hash",
			exhaustive: false,
			assumptions: vec!["normal form: object entries sorted by (key, normal form of value), arrays in order, scalars by spelling".into()],
			extra: json!({}),
		},
		total,
		started,
		if cfg.san { 50 } else { 100_000 },
	)
	.exit
}

// ---------------------------------------------------------------------------
// C14
// ---------------------------------------------------------------------------

struct Fnv(u64);
impl Hasher for Fnv {
	fn finish(&self) -> u64 {
		self.0
	}
	fn write(&mut self, bytes: &[u8]) {
		for b in bytes {
			self.0 ^= *b as u64;
			self.0 = self.0.wrapping_mul(0x100000001b3);
		}
	}
}

fn hashes<T: Hash>(v: &T) -> (u64, u64) {
	let mut a = DefaultHasher::new();
	v.hash(&mut a);
	let mut b = Fnv(0xcbf29ce484222325);
	v.hash(&mut b);
	(a.finish(), b.finish())
}

/// Laws on one pair. `content_equal` is decided on the reference trees.
fn c14_pair(rep: &mut Report, fam: &str, a: &Value, b: &Value, content_equal: bool, desc: &dyn Fn() -> serde_json::Value) {
	rep.evaluations += 1;
	let r = guard(|| {
		let eq = a == b;
		let c = a.cmp(b);
		let pc = a.partial_cmp(b);
		let rc = b.cmp(a);
		(eq, c, pc, rc, hashes(a), hashes(b), b == a)
	});
	let (eq, c, pc, rc, ha, hb, eq_rev) = match r {
		Ok(x) => x,
		Err(p) => {
			rep.violation("C14:panic", format!("[{}] comparison panicked: {}", fam, p), desc());
			return;
		}
	};
	// values that differ in the spelling of numbers only: the property asks that equality, order and
	// hash agree with each other, not that such numbers be unequal (the checks below still apply)
	let spelling_only = eq && !content_equal && numeric_twin(&to_rval(a)) == numeric_twin(&to_rval(b));
	if spelling_only {
		rep.count("values_equal_up_to_number_spelling_compared_equal(noted)", 1);
	}
	if eq != content_equal && !spelling_only {
		rep.violation(
			if content_equal { "C14:equal-content-not-eq" } else { "C14:different-content-eq" },
			format!("[{}] values with {} content: == gives {}", fam, if content_equal { "identical" } else { "different" }, eq),
			desc(),
		);
	}
	// the comparison operators must agree with cmp (also through wrappers that forward to them)
	let ops = guard(|| (a < b, a <= b, a > b, a >= b, (1u8, a) >= (1u8, b), std::cmp::Reverse(a) >= std::cmp::Reverse(b), &a >= &b, a != b));
	if let Ok((lt, le, gt, ge, tge, rge, refge, ne)) = ops {
		let want = (c == Ordering::Less, c != Ordering::Greater, c == Ordering::Greater, c != Ordering::Less);
		if (lt, le, gt, ge) != want || tge != want.3 || rge != want.1 || refge != want.3 || ne == eq {
			rep.violation("C14:operators", format!("[{}] cmp gives {:?} but (<, <=, >, >=) = {:?}, tuple >= {}, Reverse >= {}, & >= {}, != {}", fam, c, (lt, le, gt, ge), tge, rge, refge, ne), desc());
		}
	}
	if let (Value::Object(oa), Value::Object(ob)) = (a, b) {
		let oc = oa.cmp(ob);
		let ops = guard(|| (oa < ob, oa <= ob, oa > ob, oa >= ob, (1u8, oa) >= (1u8, ob), std::cmp::Reverse(oa) >= std::cmp::Reverse(ob), oa != ob, oa == ob, oa.partial_cmp(ob)));
		if let Ok((lt, le, gt, ge, tge, rge, ne, oeq, opc)) = ops {
			let want = (oc == Ordering::Less, oc != Ordering::Greater, oc == Ordering::Greater, oc != Ordering::Less);
			if oc != c || (lt, le, gt, ge) != want || tge != want.3 || rge != want.1 || ne == oeq || oeq != eq || opc != Some(oc) {
				rep.violation("C14:object-operators", format!("[{}] Object cmp gives {:?} (Value cmp {:?}) but (<, <=, >, >=) = {:?}, tuple >= {}, Reverse >= {}, != {}, == {}, partial_cmp {:?}", fam, oc, c, (lt, le, gt, ge), tge, rge, ne, oeq, opc), desc());
			}
		}
	}
	if eq != eq_rev {
		rep.violation("C14:eq-asymmetric", format!("[{}] a==b is {} but b==a is {}", fam, eq, eq_rev), desc());
	}
	if (c == Ordering::Equal) != eq || pc != Some(c) {
		rep.violation("C14:ord-eq-incoherent", format!("[{}] == gives {}, cmp gives {:?}, partial_cmp gives {:?}", fam, eq, c, pc), desc());
	}
	if rc != c.reverse() {
		rep.violation("C14:not-antisymmetric", format!("[{}] cmp(a,b) = {:?} but cmp(b,a) = {:?}", fam, c, rc), desc());
	}
	if eq && ha != hb {
		rep.violation("C14:hash-differs", format!("[{}] equal values hash differently: {:?} vs {:?}", fam, ha, hb), desc());
	}
	if !eq && ha == hb {
		rep.count("hash_collisions_between_different_values(noted)", 1);
	}
	rep.count("pairs_checked", 1);
}

/// Builds an object with exactly the entries `e` through history number `how`.
fn build_via(how: usize, e: &[(String, Value)], rng: &mut Rng) -> Object {
	let entry = |k: &str, v: &Value| Entry::new(k.into(), v.clone());
	match how % 10 {
		0 => Object::from_vec(e.iter().map(|(k, v)| entry(k, v)).collect()),
		1 => {
			let mut o = Object::new();
			for (k, v) in e {
				o.push(k.as_str().into(), v.clone());
			}
			o
		}
		2 => {
			// grow far beyond, then remove the extra keys: larger table, tombstones
			let mut o = Object::new();
			for (k, v) in e {
				o.push(k.as_str().into(), v.clone());
			}
			let junk = if cfg!(miri) { 3 + rng.below(8) } else { 20 + rng.below(60) };
			for j in 0..junk {
				o.push(format!("\u{1}junk{}", j).as_str().into(), Value::Null);
			}
			for j in 0..junk {
				let k = format!("\u{1}junk{}", j);
				let _ = o.remove(k.as_str()).count();
			}
			o
		}
		3 => {
			let mut o = Object::new();
			for (k, v) in e.iter().rev() {
				o.push_front(k.as_str().into(), v.clone());
			}
			o
		}
		4 => {
			// through text
			let mut s = String::from("{");
			for (i, (k, v)) in e.iter().enumerate() {
				if i > 0 {
					s.push(',')
				}
				pr::write_string(k, &mut s);
				s.push(':');
				s.push_str(&v.to_string());
			}
			s.push('}');
			match Value::parse_str(&s) {
				Ok((Value::Object(o), _)) => o,
				_ => Object::from_vec(e.iter().map(|(k, v)| entry(k, v)).collect()),
			}
		}
		5 => build_via(2, e, rng).clone(),
		6 => {
			// junk interleaved, removed by position
			let mut o = Object::new();
			for (k, v) in e {
				o.push("\u{1}j".into(), Value::Boolean(true));
				o.push(k.as_str().into(), v.clone());
			}
			let mut i = 0;
			while i < o.len() {
				if o.entries()[i].key.as_str() == "\u{1}j" {
					o.remove_at(i);
				} else {
					i += 1
				}
			}
			o
		}
		8 => {
			// keys with the same text but a different storage: heap-allocated although short
			let mut o = Object::new();
			for (k, v) in e {
				let mut s = String::with_capacity(64 + k.len());
				s.push_str(k);
				o.push(json_syntax::object::Key::from(s), v.clone());
			}
			o
		}
		9 => {
			// keys obtained by truncating a longer (spilled) key
			let mut o = Object::new();
			for (k, v) in e {
				let mut long: json_syntax::object::Key = format!("{}{}", k, "-padding-that-forces-the-heap").as_str().into();
				long.truncate(k.len());
				o.push(long, v.clone());
			}
			o
		}
		_ => {
			// wrong values first, then corrected in place
			let mut o = Object::new();
			for (k, _) in e {
				o.push(k.as_str().into(), Value::Null);
			}
			for (slot, (_, v)) in o.iter_mut().zip(e) {
				*slot.1 = v.clone();
			}
			o
		}
	}
}

/// All pairs (laws of `c14_pair`) and all triples (transitivity) over a pool of values.
fn order_pool(fam: &str, rvals: &[RVal]) -> Report {
	let vals: Vec<Value> = rvals.iter().map(from_rval).collect();
	let n = vals.len();
	let mut rep = Report::new();
	// a panic here is reported by the pairwise pass below, with the pair
	let m = guard(|| {
		let mut m = vec![Ordering::Equal; n * n];
		for i in 0..n {
			for j in 0..n {
				m[i * n + j] = vals[i].cmp(&vals[j]);
			}
		}
		m
	})
	.ok();
	for i in 0..n {
		for j in 0..n {
			let desc = || json!({"sub": "cmp-pair", "a": doc_of(&rvals[i]), "b": doc_of(&rvals[j])});
			c14_pair(&mut rep, fam, &vals[i], &vals[j], rvals[i] == rvals[j], &desc);
			let Some(m) = &m else { continue };
			let le = |x: usize, y: usize| m[x * n + y] != Ordering::Greater;
			for k in 0..n {
				rep.count("triples_checked", 1);
				if le(i, j) && le(j, k) && !le(i, k) {
					rep.violation(
						"C14:not-transitive",
						format!("a <= b and b <= c but a > c for a={}, b={}, c={}", doc_of(&rvals[i]), doc_of(&rvals[j]), doc_of(&rvals[k])),
						json!({"sub": "cmp-triple", "a": doc_of(&rvals[i]), "b": doc_of(&rvals[j]), "c": doc_of(&rvals[k])}),
					);
				}
			}
		}
	}
	rep.distinct_by_construction((n * n) as u64);
	rep
}

fn ord_name(o: Ordering) -> &'static str {
	match o {
		Ordering::Less => "Less",
		Ordering::Equal => "Equal",
		Ordering::Greater => "Greater",
	}
}

pub fn run_c14(cfg: &Config) -> i32 {
	let started = Instant::now();
	let thorough = cfg.tier == Tier::Thorough;
	let mut total = Report::new();
	let seed = cfg.seed;
	// every shard runs at least one case of each family: fewer shards under the interpreter
	let shards = if cfg!(miri) { 6usize } else { 64usize };

	// (a) generated pairs: a value and near-copies
	let n = cfg.budget(1_500_000, 30_000_000);
	let rep = parallel(cfg.threads, shards, |i| {
		let mut rep = Report::new();
		let mut rng = Rng::new(seed).fork(0xc14 + i as u64);
		for k in 0..(n / shards as u64).max(1) {
			let p = ValueParams {
				max_depth: 1 + rng.below(5),
				max_width: 1 + rng.below(6),
				..Default::default()
			};
			let ra = gen::gen_value(&mut rng, &p, 0);
			let rb = match rng.below(4) {
				0 => ra.clone(),
				1 => gen::gen_value(&mut rng, &p, 0),
				_ => mutate_once(&mut rng, &ra),
			};
			// sometimes both values sit at the bottom of the same deep nest (comparison code may switch strategy with depth)
			let (ra, rb) = if k % 50 == 7 {
				let depth = rng.range(100, 400);
				let shape: Vec<bool> = (0..depth).map(|_| rng.chance(1, 2)).collect();
				let wrap = |v: RVal| -> RVal {
					let mut v = v;
					for s in &shape {
						v = if *s { RVal::Arr(vec![v]) } else { RVal::Obj(vec![("k".into(), v)]) };
					}
					v
				};
				rep.max("deepest_compared_nesting", depth as u64);
				// regrouping variants of the same leaf sequence are the classic blind spot of flattened comparisons
				let (x, y) = match rng.below(6) {
					// an object with duplicate keys at the bottom: against itself (clones must keep every entry) and
					// against the collapsed form
					4 => {
						let d = RVal::Obj(vec![("k".into(), RVal::Num("1".into())), ("j".into(), RVal::Null), ("k".into(), RVal::Num("2".into())), ("k".into(), RVal::Num("1".into()))]);
						(d.clone(), d)
					}
					5 => (
						RVal::Obj(vec![("k".into(), RVal::Num("1".into())), ("j".into(), RVal::Null), ("k".into(), RVal::Num("2".into()))]),
						RVal::Obj(vec![("k".into(), RVal::Num("2".into())), ("j".into(), RVal::Null)]),
					),
					0 => (RVal::Arr(vec![RVal::Arr(vec![RVal::Num("1".into())]), RVal::Num("2".into())]), RVal::Arr(vec![RVal::Arr(vec![RVal::Num("1".into()), RVal::Num("2".into())])])),
					1 => (
						RVal::Obj(vec![("a".into(), RVal::Obj(vec![("b".into(), RVal::Num("1".into()))])), ("c".into(), RVal::Num("2".into()))]),
						RVal::Obj(vec![("a".into(), RVal::Obj(vec![("b".into(), RVal::Num("1".into())), ("c".into(), RVal::Num("2".into()))]))]),
					),
					_ => (ra, rb),
				};
				(wrap(x), wrap(y))
			} else {
				(ra, rb)
			};
			let a = from_rval(&ra);
			let b = if rng.chance(1, 2) { from_rval_push(&rb) } else { from_rval(&rb) };
			rep.distinct_hash(fnv(format!("{}|{}", doc_of(&ra), doc_of(&rb)).as_bytes()));
			let desc = || json!({"sub": "cmp-pair", "a": doc_of(&ra), "b": doc_of(&rb)});
			c14_pair(&mut rep, "generated-pairs", &a, &b, ra == rb, &desc);
			// clone
			let c = a.clone();
			c14_pair(&mut rep, "clone", &a, &c, true, &desc);
			// round trip through the reference representation keeps content
			if to_rval(&a) != ra {
				rep.inconclusive.push("harness: from_rval/to_rval do not round-trip".into());
			}
			if i == 0 && k < 2 {
				rep.sample(json!({"family": "generated-pairs", "a": show(doc_of(&ra).as_bytes()), "b": show(doc_of(&rb).as_bytes())}));
			}
		}
		rep
	});
	total.merge(rep);

	// (b) total order: all triples of a small exhaustive family (mixed lengths, shared key prefixes)
	if !cfg.san {
		let keys = ["a", "b", "c"];
		let vals = ["0", "1", "2"];
		let max = if thorough { 3 } else { 2 };
		let mut objs: Vec<Vec<(String, RVal)>> = vec![vec![]];
		let mut layer: Vec<Vec<(String, RVal)>> = vec![vec![]];
		for _ in 0..max {
			let mut next = Vec::new();
			for e in &layer {
				for k in keys {
					for v in vals {
						let mut x = e.clone();
						x.push((k.to_string(), RVal::Num(v.to_string())));
						next.push(x);
					}
				}
			}
			objs.extend(next.iter().cloned());
			layer = next;
		}
		let rvals: Vec<RVal> = objs.into_iter().map(RVal::Obj).collect();
		let vals: Vec<Value> = rvals.iter().map(from_rval).collect();
		let n = vals.len();
		total.count("objects_in_total_order_family", n as u64);
		let (rvals, vals) = (std::sync::Arc::new(rvals), std::sync::Arc::new(vals));
		// pairwise comparison matrix
		let mut m = vec![Ordering::Equal; n * n];
		for i in 0..n {
			for j in 0..n {
				m[i * n + j] = vals[i].cmp(&vals[j]);
			}
		}
		let m = std::sync::Arc::new(m);
		let full_triples = n <= 100;
		let rep = parallel(cfg.threads, n, |i| {
			let mut rep = Report::new();
			let le = |x: usize, y: usize| m[x * n + y] != Ordering::Greater;
			let mut rng = Rng::new(seed).fork(0x7a1 + i as u64);
			for j in 0..n {
				let desc = || json!({"sub": "cmp-pair", "a": doc_of(&rvals[i]), "b": doc_of(&rvals[j])});
				c14_pair(&mut rep, "order-family-pairs", &vals[i], &vals[j], rvals[i] == rvals[j], &desc);
				if !le(i, j) {
					continue;
				}
				let ks: Vec<usize> = if full_triples { (0..n).collect() } else { (0..200).map(|_| rng.below(n)).collect() };
				for k in ks {
					rep.count("triples_checked", 1);
					if le(j, k) && !le(i, k) {
						rep.violation(
							"C14:not-transitive",
							format!("a <= b and b <= c but a > c for a={}, b={}, c={}", doc_of(&rvals[i]), doc_of(&rvals[j]), doc_of(&rvals[k])),
							json!({"sub": "cmp-triple", "a": doc_of(&rvals[i]), "b": doc_of(&rvals[j]), "c": doc_of(&rvals[k])}),
						);
					}
				}
			}
			rep.distinct_by_construction(n as u64);
			rep
		});
		total.merge(rep);
	}

	// (f) wide containers (1..130 members, past any small-size fast path) against copies that differ in
	//     exactly one position (key, value or item), for every position
	{
		let rep = parallel(cfg.threads, 16, |i| {
			let mut rep = Report::new();
			let sizes: Vec<usize> = if cfg.san { if i == 0 { vec![3, 33, 65] } else { vec![] } } else { (1..=130usize).filter(|n| n % 16 == i).collect() };
			for n in sizes {
				let base_o: Vec<(String, RVal)> = (0..n).map(|j| (format!("k{}", j % 97), RVal::Num((j % 10).to_string()))).collect();
				let base_a: Vec<RVal> = (0..n).map(|j| RVal::Str(format!("s{}", j % 7))).collect();
				let (ro, ra) = (RVal::Obj(base_o.clone()), RVal::Arr(base_a.clone()));
				let (vo, va) = (from_rval(&ro), from_rval(&ra));
				rep.max("widest_compared_container", n as u64);
				for pos in 0..n {
					let mut e = base_o.clone();
					e[pos].1 = RVal::Num("77".into());
					let mut k = base_o.clone();
					k[pos].0 = "other".into();
					let mut it = base_a.clone();
					it[pos] = RVal::Null;
					for (x, vx, y) in [(&ro, &vo, RVal::Obj(e)), (&ro, &vo, RVal::Obj(k)), (&ra, &va, RVal::Arr(it))] {
						let vy = if pos % 2 == 0 { from_rval(&y) } else { from_rval_push(&y) };
						let desc = || json!({"sub": "cmp-pair", "a": doc_of(x), "b": doc_of(&y)});
						c14_pair(&mut rep, "wide-containers-differing-in-one-position", vx, &vy, false, &desc);
						rep.distinct_by_construction(1);
					}
				}
				let desc = || json!({"sub": "cmp-pair", "a": doc_of(&ro), "b": doc_of(&ro)});
				c14_pair(&mut rep, "wide-containers-differing-in-one-position", &vo, &from_rval_push(&ro), true, &desc);
			}
			rep
		});
		total.merge(rep);
	}

	// (h) strings and keys of every length 0..=40 against copies differing in exactly one byte (first,
	//     middle, last) and against extensions of themselves (one more character, NUL padding), as string
	//     values, as keys of one-entry objects and inside arrays; both operand orders through c14_pair
	{
		let rep = parallel(cfg.threads, 8, |i| {
			let mut rep = Report::new();
			let lens: Vec<usize> = if cfg!(miri) { vec![16].into_iter().filter(|_| i == 0).collect() } else if cfg.san { vec![0, 15, 16, 17, 33].into_iter().filter(|l| l % 8 == i).collect() } else { (0..=40usize).filter(|l| l % 8 == i).collect() };
			for len in lens {
				let base: String = (0..len).map(|j| char::from(b'0' + (j % 10) as u8)).collect();
				let mut variants: Vec<String> = Vec::new();
				for pos in [0, len / 2, len.saturating_sub(1)] {
					if pos < len {
						let mut b = base.clone().into_bytes();
						b[pos] = b'X';
						variants.push(String::from_utf8(b).unwrap());
						let mut b = base.clone().into_bytes();
						b[pos] = b' ';
						variants.push(String::from_utf8(b).unwrap());
					}
				}
				variants.push(format!("{}g", base));
				variants.push(format!("{}\u{0}", base));
				variants.push(format!("{}{}", base, "\u{0}".repeat(17)));
				variants.push(format!("{}\u{e9}", base));
				variants.dedup();
				rep.max("longest_compared_string", (len + 17) as u64);
				for v in &variants {
					for shape in 0..4usize {
						let wrap = |x: &str| -> RVal {
							match shape {
								0 => RVal::Str(x.to_string()),
								1 => RVal::Obj(vec![(x.to_string(), RVal::Null)]),
								2 => RVal::Arr(vec![RVal::Num("1".into()), RVal::Str(x.to_string())]),
								_ => RVal::Obj(vec![("k".into(), RVal::Num("1".into())), (x.to_string(), RVal::Str(x.to_string()))]),
							}
						};
						let (ra, rb) = (wrap(&base), wrap(v));
						let (a, b) = (from_rval(&ra), from_rval_push(&rb));
						let desc = || json!({"sub": "cmp-pair", "a": doc_of(&ra), "b": doc_of(&rb)});
						c14_pair(&mut rep, "strings-differing-in-one-byte-or-extended", &a, &b, false, &desc);
						c14_pair(&mut rep, "strings-differing-in-one-byte-or-extended", &b, &a, false, &desc);
						rep.distinct_by_construction(2);
					}
				}
			}
			rep
		});
		total.merge(rep);
	}

	// (g) clone_from: whatever the target held before, afterwards it equals the source (==, cmp, hash) and
	//     the source is untouched; all ordered pairs of a small family with duplicate keys, then random pairs
	{
		let keys = ["a", "b"];
		let mut fam: Vec<Vec<(String, RVal)>> = vec![vec![]];
		let mut layer: Vec<Vec<(String, RVal)>> = vec![vec![]];
		for _ in 0..(if thorough { 5 } else { 4 }) {
			let mut next = Vec::new();
			for e in &layer {
				for k in keys {
					for v in ["0", "1"] {
						let mut x = e.clone();
						x.push((k.to_string(), RVal::Num(v.to_string())));
						next.push(x);
					}
				}
			}
			fam.extend(next.iter().cloned());
			layer = next;
		}
		let fam: Vec<RVal> = fam.into_iter().map(RVal::Obj).collect();
		let fam = std::sync::Arc::new(fam);
		let nf = fam.len();
		total.count("objects_in_clone_from_family", nf as u64);
		let random_pairs = cfg.budget(60_000, 2_000_000);
		let rep = parallel(cfg.threads, shards, |i| {
			let mut rep = Report::new();
			let mut rng = Rng::new(seed).fork(0xc1f + i as u64);
			let mut one = |rep: &mut Report, rt: &RVal, rs: &RVal, nest: bool| {
				let (mut target, source) = (from_rval(rt), from_rval_push(rs));
				if nest {
					// through the containers' own clone_from (Vec<Value>, entries)
					target = Value::Array(vec![target, Value::Null]);
				}
				let source = if nest { Value::Array(vec![source, Value::Null]) } else { source };
				let before = source.clone();
				if guard(std::panic::AssertUnwindSafe(|| target.clone_from(&source))).is_err() {
					rep.violation("C14:panic", format!("clone_from panicked (target {}, source {})", doc_of(rt), doc_of(rs)), json!({"sub": "clone-from", "a": doc_of(rt), "b": doc_of(rs)}));
					return;
				}
				let desc = || json!({"sub": "clone-from", "a": doc_of(rt), "b": doc_of(rs)});
				c14_pair(rep, "clone_from(target,source)-vs-source", &target, &source, true, &desc);
				c14_pair(rep, "source-after-clone_from", &source, &before, true, &desc);
				// Object::clone_from itself (Value's derived Clone assigns a fresh clone and never reaches it):
				// from the pair's own target, from an unrelated object, and through Vec<Object>::clone_from
				if let (Value::Object(to), Value::Object(so)) = (&from_rval(rt), &from_rval_push(rs)) {
					let mut t1 = to.clone();
					let mut t2 = json_syntax::Object::new();
					t2.push("zz".into(), Value::Null);
					let mut tv = vec![to.clone(), to.clone()];
					let r = guard(std::panic::AssertUnwindSafe(|| {
						t1.clone_from(so);
						t2.clone_from(so);
						tv.clone_from(&vec![so.clone()]);
					}));
					if r.is_err() {
						rep.violation("C14:panic", format!("Object::clone_from panicked (target {}, source {})", doc_of(rt), doc_of(rs)), desc());
						return;
					}
					let src = Value::Object(so.clone());
					c14_pair(rep, "Object::clone_from(target,source)-vs-source", &Value::Object(t1), &src, true, &desc);
					c14_pair(rep, "Object::clone_from(unrelated,source)-vs-source", &Value::Object(t2), &src, true, &desc);
					if tv.len() != 1 {
						rep.violation("C14:clone-differs", format!("Vec<Object>::clone_from leaves {} objects", tv.len()), desc());
					} else {
						c14_pair(rep, "Vec<Object>::clone_from-vs-source", &Value::Object(tv.pop().unwrap()), &src, true, &desc);
					}
				}
			};
			// all ordered pairs; a sample of about 2 per shard in the sanitizer passes
			let stride = if cfg.san { (nf * nf / 2).max(1) * shards / shards.max(1) + 7 } else { shards };
			let mut k = if cfg.san { (i * 7919 + seed as usize % 1009) % (nf * nf) } else { i };
			while k < nf * nf {
				let (a, b) = (k / nf, k % nf);
				one(&mut rep, &fam[a], &fam[b], k % 5 == 0);
				rep.distinct_by_construction(1);
				k += stride;
			}
			for _ in 0..(random_pairs / shards as u64).max(1) {
				let p = ValueParams {
					max_depth: 1 + rng.below(4),
					max_width: 1 + rng.below(6),
					..Default::default()
				};
				let ra = gen::gen_value(&mut rng, &p, 0);
				let rb = if rng.chance(1, 2) { mutate_once(&mut rng, &ra) } else { gen::gen_value(&mut rng, &p, 0) };
				rep.distinct_hash(fnv(format!("{}<-{}", doc_of(&ra), doc_of(&rb)).as_bytes()));
				one(&mut rep, &ra, &rb, false);
			}
			rep
		});
		total.merge(rep);
	}

	// (b') total order over keys from the regions where byte order, code-point order and UTF-16 order
	//      differ: all pairs and all triples of one-entry and two-entry objects over the pool
	if !cfg.san {
		let pool = ["", "a", "\u{e000}", "\u{e001}", "\u{ffff}", "\u{10000}", "\u{e000}\u{10000}", "\u{10000}\u{e000}", "\u{1f600}", "\u{10ffff}", "\u{d7ff}", "a\u{10000}", "a\u{e000}", "\u{fb33}", "\u{ff5e}z", "0123456789abcdef", "0123456789abcdefg", "0123456789abcde\u{10000}"];
		let mut rvals: Vec<RVal> = pool.iter().map(|k| RVal::Obj(vec![(k.to_string(), RVal::Null)])).collect();
		for (i, k) in pool.iter().enumerate().take(8) {
			rvals.push(RVal::Obj(vec![("a".to_string(), RVal::Null), (k.to_string(), RVal::Num(i.to_string()))]));
			rvals.push(RVal::Str(k.to_string()));
		}
		total.merge(order_pool("key-pool-order-family", &rvals));

		// (b'') the same over number spellings: same number written differently (exponent marker case,
		//       trailing zeros, signs of zero and of the exponent), neighbours around 2^53, the i64 / u64
		//       limits and beyond the double range; bare, in an array and as an entry value
		let nums = [
			"0", "-0", "0.0", "0e0", "0E0", "-0.0", "1", "1.0", "1.00", "1e0", "1E0", "10", "9", "-1", "-10", "-9", "1e5", "1E5", "1e+5", "1E+5", "100000", "1.5e3", "1.5E3", "1500", "2", "12", "1e-5", "1E-5",
			"9007199254740992", "9007199254740993", "9007199254740994", "9007199254740993.0", "9223372036854775806", "9223372036854775807", "9223372036854775808", "9223372036854775809", "-9223372036854775808", "-9223372036854775809",
			"18446744073709551615", "18446744073709551616", "18446744073709551617", "1e400", "1E400", "2e400", "1e-400", "2e-400", "123456789012345678901234567890", "123456789012345678901234567891",
		];
		let mut nums: Vec<String> = nums.iter().map(|x| x.to_string()).collect();
		// both signs of the neighbourhoods where integers stop being exact as doubles / as i64 / as u64,
		// each as an integer, with a fraction and with an exponent
		for base in [9007199254740992u128, 9223372036854775806, 18446744073709551614] {
			for sign in ["", "-"] {
				for x in [format!("{}", base), format!("{}", base + 1), format!("{}", base + 2), format!("{}.0", base), format!("{}.5", base), format!("{}.0", base + 1), format!("{}e0", base)] {
					let t = format!("{}{}", sign, x);
					if !nums.contains(&t) {
						nums.push(t);
					}
				}
			}
		}
		let mut rvals: Vec<RVal> = nums.iter().map(|x| RVal::Num(x.to_string())).collect();
		for x in nums.iter().step_by(3) {
			rvals.push(RVal::Arr(vec![RVal::Num(x.to_string())]));
			rvals.push(RVal::Obj(vec![("n".to_string(), RVal::Num(x.to_string()))]));
		}
		total.merge(order_pool("number-pool-order-family", &rvals));

		// (b3) the same over containers of very different sizes (0, 1, 2 and around 64 / 128 members)
		//      filled with one of two values, next to short containers that lie between them in the
		//      lexicographic order: an order that switches criterion with the size is not transitive
		let mut rvals: Vec<RVal> = Vec::new();
		let num = |x: usize| RVal::Num(x.to_string());
		for n in [0usize, 1, 2, 63, 64, 65, 66, 129, 130] {
			for fill in [1usize, 2] {
				if n == 0 && fill == 2 {
					continue;
				}
				rvals.push(RVal::Arr((0..n).map(|_| num(fill)).collect()));
				rvals.push(RVal::Obj((0..n).map(|j| (format!("k{:03}", j), num(fill))).collect()));
				rvals.push(RVal::Str(if fill == 1 { "a" } else { "b" }.repeat(n)));
			}
		}
		for short in [vec![1usize, 5], vec![2], vec![1, 1, 9], vec![2, 0], vec![1, 2]] {
			rvals.push(RVal::Arr(short.iter().map(|&x| num(x)).collect()));
			rvals.push(RVal::Obj(short.iter().enumerate().map(|(j, &x)| (format!("k{:03}", j), num(x))).collect()));
			rvals.push(RVal::Obj(short.iter().enumerate().map(|(j, &x)| (format!("k{:03}", j + 1), num(x))).collect()));
			rvals.push(RVal::Str(short.iter().map(|&x| ["a", "a", "b", "c", "c", "e", "e", "e", "e", "z"][x]).collect::<String>()));
		}
		total.merge(order_pool("size-mixed-containers-order-family", &rvals));
	}

	// (f2) containers of more than 65,536 members against copies that differ in exactly one member beyond
	//      position 65,535 (a scalar, a nested array, a nested object, a key), and against themselves
	if !cfg.san && !cfg!(miri) {
		let rep = parallel(cfg.threads.min(4), 4, |which| {
			let mut rep = Report::new();
			let n = 65_536 + 40 + which;
			let at = [65_536usize, 65_537, n - 1, 65_540][which];
			let base_o: Vec<(String, RVal)> = (0..n).map(|j| (format!("k{}", j), if j % 1000 == 7 || j == at { RVal::Arr(vec![RVal::Num("1".into())]) } else { RVal::Num((j % 10).to_string()) })).collect();
			let base_a: Vec<RVal> = base_o.iter().map(|e| e.1.clone()).collect();
			let (vo, va) = (from_rval(&RVal::Obj(base_o.clone())), from_rval(&RVal::Arr(base_a.clone())));
			let variants: [RVal; 4] = [RVal::Arr(vec![RVal::Num("2".into())]), RVal::Obj(vec![("x".into(), RVal::Null)]), RVal::Num("77".into()), RVal::Arr(vec![RVal::Num("1".into()), RVal::Null])];
			for (vi, var) in variants.iter().enumerate() {
				let mut o2 = base_o.clone();
				o2[at].1 = var.clone();
				let mut a2 = base_a.clone();
				a2[at] = var.clone();
				let (wo, wa) = (from_rval_push(&RVal::Obj(o2)), from_rval(&RVal::Arr(a2)));
				let desc = || json!({"sub": "huge-pair", "members": n, "position": at, "variant": vi});
				c14_pair(&mut rep, "containers-beyond-65536-members", &vo, &wo, false, &desc);
				c14_pair(&mut rep, "containers-beyond-65536-members", &va, &wa, false, &desc);
				rep.distinct_by_construction(2);
			}
			let mut o3 = base_o.clone();
			o3[at].0 = "other".into();
			let desc = || json!({"sub": "huge-pair", "members": n, "position": at, "variant": "key"});
			c14_pair(&mut rep, "containers-beyond-65536-members", &vo, &from_rval(&RVal::Obj(o3)), false, &desc);
			c14_pair(&mut rep, "containers-beyond-65536-members", &vo, &from_rval_push(&RVal::Obj(base_o.clone())), true, &desc);
			c14_pair(&mut rep, "containers-beyond-65536-members", &va, &va.clone(), true, &desc);
			rep.max("widest_compared_container", n as u64);
			rep
		});
		total.merge(rep);
	}

	// (c) random triples of related values
	let n = cfg.budget(500_000, 10_000_000);
	let rep = parallel(cfg.threads, shards, |i| {
		let mut rep = Report::new();
		let mut rng = Rng::new(seed).fork(0xc14b + i as u64);
		for _ in 0..(n / shards as u64).max(1) {
			let p = ValueParams {
				max_depth: 1 + rng.below(3),
				max_width: 1 + rng.below(4),
				..Default::default()
			};
			let ra = gen::gen_value(&mut rng, &p, 0);
			let rb = mutate_once(&mut rng, &ra);
			let rc = if rng.chance(1, 2) { mutate_once(&mut rng, &rb) } else { mutate_once(&mut rng, &ra) };
			let mut t = [(from_rval(&ra), &ra), (from_rval(&rb), &rb), (from_rval(&rc), &rc)];
			rep.evaluations += 1;
			rep.distinct_hash(fnv(format!("{}|{}|{}", doc_of(&ra), doc_of(&rb), doc_of(&rc)).as_bytes()));
			rep.count("triples_checked", 1);
			// sort the three with the library's order, then verify the result is a chain
			t.sort_by(|x, y| x.0.cmp(&y.0));
			let ok = t[0].0.cmp(&t[1].0) != Ordering::Greater && t[1].0.cmp(&t[2].0) != Ordering::Greater && t[0].0.cmp(&t[2].0) != Ordering::Greater;
			// transitivity over all 6 arrangements
			let mut bad = !ok;
			for (x, y, z) in [(0, 1, 2), (0, 2, 1), (1, 0, 2), (1, 2, 0), (2, 0, 1), (2, 1, 0)] {
				if t[x].0.cmp(&t[y].0) != Ordering::Greater && t[y].0.cmp(&t[z].0) != Ordering::Greater && t[x].0.cmp(&t[z].0) == Ordering::Greater {
					bad = true;
				}
			}
			if bad {
				rep.violation(
					"C14:not-transitive",
					format!("ordering is not a chain on {}, {}, {}", doc_of(t[0].1), doc_of(t[1].1), doc_of(t[2].1)),
					json!({"sub": "cmp-triple", "a": doc_of(t[0].1), "b": doc_of(t[1].1), "c": doc_of(t[2].1)}),
				);
			}
		}
		rep
	});
	total.merge(rep);

	// (d) same entries through different histories
	let n = cfg.budget(60_000, 2_000_000);
	let rep = parallel(cfg.threads, shards, |i| {
		let mut rep = Report::new();
		let mut rng = Rng::new(seed).fork(0xc14c + i as u64);
		for k in 0..(n / shards as u64).max(1) {
			let len = match rng.below(6) {
				0 => 0,
				1..=3 => rng.range(1, 5),
				4 => rng.range(5, 12),
				_ => rng.range(12, 40),
			};
			let universe = 1 + rng.below(6);
			let entries: Vec<(String, Value)> = (0..len)
				.map(|j| {
					let wide = if rng.chance(1, 3) { 8 } else { 1 };
					(format!("k{}", rng.below(universe.max(1) * wide)), Value::Number((j as u64 % 3).into()))
				})
				.collect();
			let built: Vec<Object> = (0..10).map(|h| build_via(h, &entries, &mut rng)).collect();
			let dumps: Vec<_> = built.iter().map(|o| o.verif_index_dump()).collect();
			let want: Vec<(String, Value)> = entries.clone();
			for (h, o) in built.iter().enumerate() {
				let got: Vec<(String, Value)> = o.iter().map(|e| (e.key.as_str().to_string(), e.value.clone())).collect();
				if got != want {
					rep.inconclusive.push(format!("harness: history {} did not produce the intended entries", h));
				}
			}
			for x in 0..built.len() {
				for y in (x + 1)..built.len() {
					rep.evaluations += 1;
					rep.count("history_pairs_checked", 1);
					let internals_differ = dumps[x].capacity != dumps[y].capacity || dumps[x].buckets != dumps[y].buckets;
					if internals_differ {
						rep.count("history_pairs_whose_index_internals_differ", 1);
					}
					let (a, b) = (&built[x], &built[y]);
					let r = guard(|| (a == b, a.cmp(b), a.partial_cmp(b), hashes(a) == hashes(b), Value::Object(a.clone()) == Value::Object(b.clone()), hashes(&Value::Object(a.clone())) == hashes(&Value::Object(b.clone()))));
					let desc = json!({"sub": "histories", "entries": entries.iter().map(|e| json!([e.0, e.1.to_string()])).collect::<Vec<_>>(), "histories": [x, y]});
					match r {
						Ok((true, Ordering::Equal, Some(Ordering::Equal), true, true, true)) => (),
						Ok((eq, c, pc, h, veq, vh)) => rep.violation(
							"C14:history-dependent",
							format!("objects with identical entries built through histories {} and {} (index internals differ: {}): == {}, cmp {}, partial_cmp {:?}, equal hashes {}, as Value == {}, Value hashes equal {}", x, y, internals_differ, eq, ord_name(c), pc, h, veq, vh),
							desc,
						),
						Err(p) => rep.violation("C14:panic", format!("comparison panicked: {}", p), desc),
					}
				}
			}
			rep.distinct_hash(fnv(format!("{:?}", entries).as_bytes()));
			if i == 0 && k == 0 {
				rep.sample(json!({"family": "histories", "entries": entries.iter().map(|e| json!([e.0, e.1.to_string()])).collect::<Vec<_>>(), "ways": ["from_vec", "push", "grow then remove junk", "push_front reversed", "parse", "clone of grown", "interleaved junk removed by position", "in-place mutation", "short keys stored on the heap", "keys truncated from longer ones"]}));
			}
		}
		rep
	});
	total.merge(rep);

	// (e) content-only at every point of a history: after each operation the object must be
	// indistinguishable (==, cmp, hash) from a freshly built object with the same entries
	let n_ops = cfg.budget(1_000_000, 20_000_000);
	let rep = parallel(cfg.threads, shards, |i| {
		use crate::oracle::objmodel::{apply, Fresh, Model};
		let mut rep = Report::new();
		let mut rng = Rng::new(seed).fork(0xc14e + i as u64);
		let mut done = 0u64;
		while done < (n_ops / shards as u64).max(1) {
			let n_keys = [1usize, 2, 3, 5, 12, 40][rng.below(6)];
			let universe: Vec<String> = (0..n_keys).map(|k| if k % 4 == 3 { format!("a-key-longer-than-sixteen-bytes-{}", k) } else { format!("k{}", k) }).collect();
			let len = rng.range(5, 120);
			let mut obj = Object::new();
			let mut m = Model::new();
			let mut fresh = Fresh(0);
			let mut hist = Vec::new();
			for _ in 0..len {
				let shrink = rng.chance(1, 4);
				let op = if rng.chance(1, 5) {
					// operations that write through a reference handed out by the object
					let k = universe[rng.below(universe.len())].clone();
					match rng.below(5) {
						0 => crate::oracle::objmodel::Op::GetMut(k),
						1 => crate::oracle::objmodel::Op::IterMut,
						2 => crate::oracle::objmodel::Op::GetUniqueMut(k),
						3 => crate::oracle::objmodel::Op::GetMutOrInsertWith(k),
						_ => crate::oracle::objmodel::Op::GetOrInsertWith(k),
					}
				} else {
					super::c06::random_op(&mut rng, &universe, m.entries.len(), shrink)
				};
				hist.push(op.clone());
				done += 1;
				rep.evaluations += 1;
				rep.count("history_steps_compared_with_a_fresh_object", 1);
				let r = guard(|| apply(&op, &mut obj, &mut m, &mut fresh));
				if !matches!(r, Ok(Ok(()))) {
					break; // operation semantics are C06's business
				}
				let twin = Object::from_vec(m.entries.iter().map(|(k, v)| Entry::new(k.as_str().into(), v.clone())).collect());
				let r = guard(|| {
					let (a, b) = (&obj, &twin);
					(a == b, b == a, a.cmp(b), a.partial_cmp(b), hashes(a) == hashes(b), hashes(&Value::Object(a.clone())) == hashes(&Value::Object(b.clone())), a.clone() == *b)
				});
				let desc = || json!({"sub": "history-vs-fresh", "ops": hist.iter().map(super::c06::op_json).collect::<Vec<_>>()});
				match r {
					Ok((true, true, Ordering::Equal, Some(Ordering::Equal), true, true, true)) => (),
					Ok(x) => {
						rep.violation(
							format!("C14:history-step:{}", super::c06::op_name(&op)),
							format!("after history {:?} the object and a fresh object with the same entries: (==, reversed ==, cmp, partial_cmp, equal hashes, equal Value hashes, clone ==) = {:?}", hist, x),
							desc(),
						);
						break;
					}
					Err(p) => {
						rep.violation("C14:panic", format!("comparison panicked after {:?}: {}", hist, p), desc());
						break;
					}
				}
			}
			rep.distinct_hash(fnv(format!("{:?}", hist.iter().take(30).collect::<Vec<_>>()).as_bytes()));
		}
		rep
	});
	total.merge(rep);

	conclude(
		cfg,
		EvidenceMeta {
			id: "C14",
			rule: "cases: (a) generated pairs (a value and an identical copy / an unrelated value / a near-copy differing in one leaf, key, position, multiplicity) and clones; (b) every pair and every triple of the objects with at most 2 (thorough 3) entries over keys {a,b,c} x values {0,1,2} (mixed lengths sharing key prefixes); (c) random triples of related values; (d) objects with identical entry lists built through 10 different histories (from_vec, push, grow-then-shrink, push_front, parse, clone of a grown object, interleaved junk removed by position, in-place mutation, short keys stored on the heap, keys truncated from longer ones), all pairs; (e) random operation histories (the C06 alphabet) in which after every operation the object is compared (==, cmp, hash, also wrapped in Value) with a fresh object built from the model's entries; (f) containers of 1..130 members against copies differing in exactly one key, value or item, for every position; (h) strings and keys of every length 0..40 against copies differing in one byte (first, middle, last) and against extensions of themselves (one more character, NUL padding), as values, keys and array items; (g) clone_from over all ordered pairs of the objects with at most 4 (thorough 5) entries over keys {a,b} x values {0,1} and over random pairs: the target must then equal the source under every law and the source be unchanged; laws: == iff content equal (decided on the reference trees), == iff cmp Equal iff partial_cmp Some(Equal), symmetric ==, cmp antisymmetric, transitive, equal => equal hashes under two hashers; the hook counts how many history pairs really had different index internals; distinct by hash / construction",
			exhaustive: false,
			assumptions: vec!["content equality = equality of the reference trees (numbers by spelling)".into()],
			extra: json!({}),
		},
		total,
		started,
		if cfg.san { 50 } else { 100_000 },
	)
	.exit
}

pub fn replay_case(id: &str, case: &serde_json::Value) -> Option<Vec<String>> {
	let mut rd = Reader::new();
	let mut rep = Report::new();
	let mut get = |k: &str| -> Option<RVal> { rd.read(case.get(k)?.as_str()?.as_bytes(), true).root };
	match case.get("sub")?.as_str()? {
		"unordered-pair" => {
			let (a, b) = (get("a")?, get("b")?);
			let want = nf(&a) == nf(&b);
			c15_pair(&mut rep, "replay", &a, &b, &from_rval(&a), &from_rval(&b), want, true);
		}
		"cmp-pair" => {
			let (a, b) = (get("a")?, get("b")?);
			let d = || case.clone();
			c14_pair(&mut rep, "replay", &from_rval(&a), &from_rval(&b), a == b, &d);
		}
		"cmp-triple" => {
			let (a, b, c) = (get("a")?, get("b")?, get("c")?);
			let t = [from_rval(&a), from_rval(&b), from_rval(&c)];
			for (x, y, z) in [(0, 1, 2), (0, 2, 1), (1, 0, 2), (1, 2, 0), (2, 0, 1), (2, 1, 0)] {
				if t[x].cmp(&t[y]) != Ordering::Greater && t[y].cmp(&t[z]) != Ordering::Greater && t[x].cmp(&t[z]) == Ordering::Greater {
					rep.violation("C14:not-transitive", "ordering is not transitive on the recorded triple".to_string(), case.clone());
				}
			}
		}
		"history-vs-fresh" => {
			use crate::oracle::objmodel::{apply, Fresh, Model};
			let ops: Vec<_> = case.get("ops")?.as_array()?.iter().filter_map(super::c06::op_from_json).collect();
			let mut obj = Object::new();
			let mut m = Model::new();
			let mut fresh = Fresh(0);
			for op in &ops {
				if !matches!(guard(|| apply(op, &mut obj, &mut m, &mut fresh)), Ok(Ok(()))) {
					break;
				}
				let twin = Object::from_vec(m.entries.iter().map(|(k, v)| Entry::new(k.as_str().into(), v.clone())).collect());
				if !(obj == twin && obj.cmp(&twin) == Ordering::Equal && hashes(&obj) == hashes(&twin)) {
					rep.violation("C14:history-step", format!("after {:?} the object differs from a fresh object with the same entries", op), case.clone());
					break;
				}
			}
		}
		"histories" => {
			let entries: Vec<(String, Value)> = case
				.get("entries")?
				.as_array()?
				.iter()
				.filter_map(|e| Some((e.get(0)?.as_str()?.to_string(), Value::parse_str(e.get(1)?.as_str()?).ok()?.0)))
				.collect();
			let mut rng = Rng::new(1);
			let built: Vec<Object> = (0..10).map(|h| build_via(h, &entries, &mut rng)).collect();
			for x in 0..10 {
				for y in (x + 1)..10 {
					let (a, b) = (&built[x], &built[y]);
					if !(a == b && a.cmp(b) == Ordering::Equal && hashes(a) == hashes(b)) {
						rep.violation("C14:history-dependent", format!("histories {} and {} compare differently", x, y), case.clone());
					}
				}
			}
		}
		_ => return None,
	}
	let _ = id;
	Some(rep.violations.iter().map(|v| format!("[{}] {}", v.signature, v.what)).collect())
}
