use crate::monitor::Config;
use std::path::Path;

pub mod c01;
pub mod c02;
pub mod c03;
pub mod c05;
pub mod c06;
pub mod c07;
pub mod c11;
pub mod c12;
pub mod c19;
pub mod c20;
pub mod eqfam;
pub mod jcsfam;
pub mod parsefam;
pub mod printfam;
pub mod serdefam;

pub fn run(id: &str, cfg: &Config) -> i32 {
	match id {
		"C01" => c01::run(cfg),
		"C02" => c02::run(cfg),
		"C03" => c03::run(cfg),
		"C04" => printfam::run_c04(cfg),
		"C08" => printfam::run_c08(cfg),
		"C13" => printfam::run_c13(cfg),
		"C05" => c05::run(cfg),
		"C06" => c06::run(cfg),
		"C07" => c07::run(cfg),
		"C09" => jcsfam::run_c09(cfg),
		"C10" => jcsfam::run_c10(cfg),
		"C11" => c11::run(cfg),
		"C12" => c12::run(cfg),
		"C14" => eqfam::run_c14(cfg),
		"C15" => eqfam::run_c15(cfg),
		"C16" => serdefam::run_c16(cfg),
		"C17" => serdefam::run_c17(cfg),
		"C18" => serdefam::run_c18(cfg),
		"C19" => c19::run(cfg),
		"C20" => c20::run(cfg),
		_ => {
			println!("INCONCLUSIVE property={} no such check", id);
			2
		}
	}
}

/// Re-runs one recorded case. Exit 1 (with a VIOLATION line) if it fires again.
pub fn replay(id: &str, cfg: &Config, path: &Path) -> i32 {
	let Ok(text) = std::fs::read_to_string(path) else {
		println!("INCONCLUSIVE property={} cannot read replay {}", id, path.display());
		return 2;
	};
	let Ok(j) = serde_json::from_str::<serde_json::Value>(&text) else {
		println!("INCONCLUSIVE property={} replay {} is not JSON", id, path.display());
		return 2;
	};
	let case = j.get("case").cloned().unwrap_or(serde_json::Value::Null);
	let sub = case.get("sub").and_then(|s| s.as_str()).unwrap_or("");
	let fired: Option<Vec<String>> = match (id, sub) {
		// a panic of the library somewhere in the workload: the workload of the recorded tier and seed is run again
		(_, "library-panic") => {
			let mut c2 = cfg.clone();
			if let Some(seed) = j.get("seed").and_then(|x| x.as_u64()) {
				c2.seed = seed;
			}
			if j.get("tier").and_then(|x| x.as_str()) == Some("thorough") {
				c2.tier = crate::monitor::Tier::Thorough;
			}
			// the re-run writes its findings to a scratch directory, not over the committed evidence
			c2.verif_dir = std::env::temp_dir().join(format!("jsv-replay-{}", std::process::id()));
			let _ = std::fs::create_dir_all(c2.verif_dir.join("evidence"));
			let _ = std::fs::create_dir_all(c2.verif_dir.join("replays"));
			let _ = std::fs::copy(cfg.verif_dir.join("known-findings.txt"), c2.verif_dir.join("known-findings.txt"));
			let code = run(id, &c2);
			let _ = std::fs::remove_dir_all(&c2.verif_dir);
			Some(if code == 1 { vec![format!("the {} workload reports a violation again", id)] } else { vec![] })
		}
		("C01" | "C02" | "C05" | "C07" | "C12", "parse-input") => {
			let input = crate::monitor::unhex(case.get("input_hex").and_then(|s| s.as_str()).unwrap_or(""));
			let flags = parsefam::Flags {
				c01: id == "C01",
				c02: id == "C02",
				c05: id == "C05",
				c07: id == "C07",
				c12: id == "C12",
				all_entries: true,
			};
			let mut mon = parsefam::Mon::new(flags, cfg.seed);
			// several ticks so that sampled sub-checks are reached
			for _ in 0..16 {
				mon.input("replay", &input);
			}
			Some(mon.rep.violations.iter().map(|v| format!("[{}] {}", v.signature, v.what)).collect())
		}
		("C03", _) => c03::replay_case(cfg, &case),
		("C06", "history") => c06::replay_case(&case),
		("C04" | "C08" | "C13", _) => printfam::replay_case(id, &case),
		("C09" | "C10", _) => jcsfam::replay_case(id, &case),
		("C11", _) => c11::replay_case(&case),
		("C19", _) => c19::replay_case(cfg, &case),
		("C16" | "C17" | "C18", _) => serdefam::replay_case(id, &case),
		("C14" | "C15", _) => eqfam::replay_case(id, &case),
		("C20", _) => Some(if c20::run(cfg) == 0 { vec![] } else { vec!["C20 enumeration fails".to_string()] }),
		_ => None,
	};
	match fired {
		None => {
			println!("INCONCLUSIVE property={} replay of sub-check `{}` is not supported", id, sub);
			2
		}
		Some(v) if v.is_empty() => {
			println!("replay {}: no monitor fired", path.display());
			0
		}
		Some(v) => {
			for m in v {
				println!("  {}", m);
			}
			println!("VIOLATION property={} replay={}", id, path.display());
			1
		}
	}
}
