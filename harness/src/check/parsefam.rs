//! Shared engine of the parser checks (C01, C02, C05, C07, C12): one monitor
//! that compares every observable of a parse with the reference reader, and
//! the workload families that feed it.

use crate::gen::{self, ValueParams, WriteStyle};
use crate::monitor::conv::to_rval;
use crate::monitor::{fnv, hex, parallel, show, Config, Report};
use crate::oracle::rfc8259::{FragKind, Opts, RVal, Reader, Reading, SurEvent};
use crate::real::{self, PErr, PRes};
use crate::rng::Rng;
use json_syntax::{FragmentRef, Value};
use serde_json::json;

#[derive(Clone, Copy, Default)]
pub struct Flags {
	pub c01: bool,
	pub c02: bool,
	pub c05: bool,
	pub c07: bool,
	pub c12: bool,
	/// call all 13 entry points on every text input (otherwise on a sample)
	pub all_entries: bool,
}

impl Flags {
	fn needs_tree(&self) -> bool {
		self.c02 || self.c05 || self.c12
	}
}

pub struct Mon {
	pub flags: Flags,
	pub reader: Reader,
	pub rep: Report,
	tick: u64,
	rng: Rng,
	scratch: Vec<u8>,
}

fn err_name(e: &PErr) -> &'static str {
	match e {
		PErr::Unexpected(..) => "Unexpected",
		PErr::InvalidUtf8(..) => "InvalidUtf8",
		PErr::MissingLow { .. } => "MissingLowSurrogate",
		PErr::InvalidLow { .. } => "InvalidLowSurrogate",
		PErr::InvalidCp { .. } => "InvalidUnicodeCodePoint",
		PErr::Stream(..) => "Stream",
		PErr::Incoherent(..) => "Incoherent",
		PErr::Panic(..) => "Panic",
	}
}

/// C07 oracle: is error `e` what the property allows for this reading?
pub fn check_error(rd: &Reading, e: &PErr) -> Result<(), String> {
	let first = rd.first_sur_error(Opts::STRICT).or(rd.pending_at_cut.map(|esc| SurEvent::UnpairedHigh {
		esc,
		next: None,
	}));
	match e {
		PErr::Panic(m) => Err(format!("panic: {}", m)),
		PErr::Incoherent(m) => Err(format!("position()/span() disagree with payload: {}", m)),
		PErr::Stream(p) => Err(format!("unexpected Stream({}) error", p)),
		PErr::Unexpected(p, c) => match rd.stop {
			Some((sp, sc)) if sp == *p && sc == *c => Ok(()),
			Some((sp, sc)) => Err(format!(
				"Unexpected({}, {:?}) but the longest viable prefix has length {} (character there: {:?})",
				p, c, sp, sc
			)),
			None if rd.invalid_utf8 => Err(format!(
				"Unexpected({}, {:?}) but the first problem is the ill-formed UTF-8 sequence at {}",
				p, c, rd.valid_up_to
			)),
			None => Err(format!(
				"Unexpected({}, {:?}) but the whole text matches the grammar",
				p, c
			)),
		},
		PErr::InvalidUtf8(p) => {
			if rd.invalid_utf8 && *p == rd.valid_up_to {
				Ok(())
			} else if let Some((sp, _)) = rd.stop {
				Err(format!(
					"InvalidUtf8({}) but a syntax error occurs before any ill-formed sequence, at {}",
					p, sp
				))
			} else {
				Err(format!(
					"InvalidUtf8({}) but the first ill-formed sequence is at {} (len {})",
					p, rd.valid_up_to, rd.len
				))
			}
		}
		PErr::MissingLow { start, end, hi } => match first {
			Some(SurEvent::UnpairedHigh { esc, .. }) => {
				if esc.unit != *hi {
					Err(format!("MissingLowSurrogate carries {:04x}, offending escape is {:04x}", hi, esc.unit))
				} else if !(esc.start <= *start && start <= end && *end <= esc.end) {
					Err(format!(
						"MissingLowSurrogate span {}..{} not inside the offending escape {}..{}",
						start, end, esc.start, esc.end
					))
				} else {
					Ok(())
				}
			}
			_ => Err(format!(
				"MissingLowSurrogate({}..{}, {:04x}) but the first surrogate anomaly is {:?}",
				start, end, hi, first
			)),
		},
		PErr::InvalidLow { start, end, hi, cp } => match first {
			Some(SurEvent::UnpairedHigh { esc, next: Some(n) }) => {
				if esc.unit != *hi || n.unit as u32 != *cp {
					Err(format!(
						"InvalidLowSurrogate carries ({:04x},{:04x}), offending escapes are ({:04x},{:04x})",
						hi, cp, esc.unit, n.unit
					))
				} else if !(esc.start <= *start && start <= end && *end <= n.end) {
					Err(format!(
						"InvalidLowSurrogate span {}..{} not inside the offending escapes {}..{}",
						start, end, esc.start, n.end
					))
				} else {
					Ok(())
				}
			}
			_ => Err(format!(
				"InvalidLowSurrogate({}..{}, {:04x}, {:04x}) but the first surrogate anomaly is {:?}",
				start, end, hi, cp, first
			)),
		},
		PErr::InvalidCp { start, end, cp } => match first {
			Some(ev) => {
				let esc = ev.esc();
				if esc.unit as u32 != *cp {
					Err(format!(
						"InvalidUnicodeCodePoint carries {:04x}, first offending escape is {:04x}",
						cp, esc.unit
					))
				} else if !(esc.start <= *start && start <= end && *end <= esc.end) {
					Err(format!(
						"InvalidUnicodeCodePoint span {}..{} not inside the offending escape {}..{}",
						start, end, esc.start, esc.end
					))
				} else {
					Ok(())
				}
			}
			None => Err(format!(
				"InvalidUnicodeCodePoint({}..{}, {:04x}) but there is no unpaired surrogate escape before the first syntax problem",
				start, end, cp
			)),
		},
	}
}

/// Compares every key-based lookup on every object of `v` with a linear scan
/// of the reference entries. Returns the number of lookups made.
pub fn check_lookups(v: &Value, r: &RVal) -> Result<u64, String> {
	let mut n = 0u64;
	match (v, r) {
		(Value::Array(a), RVal::Arr(ra)) => {
			for (x, rx) in a.iter().zip(ra) {
				n += check_lookups(x, rx)?;
			}
		}
		(Value::Object(o), RVal::Obj(ro)) => {
			let mut keys: Vec<&str> = ro.iter().map(|(k, _)| k.as_str()).collect();
			keys.sort();
			keys.dedup();
			keys.push("\u{1}absent");
			keys.push("absent-key-longer-than-sixteen-bytes");
			for k in keys {
				let want: Vec<(usize, &RVal)> = ro
					.iter()
					.enumerate()
					.filter(|(_, (ek, _))| ek == k)
					.map(|(i, (_, ev))| (i, ev))
					.collect();
				let got: Vec<RVal> = o.get(k).map(to_rval).collect();
				let wantv: Vec<RVal> = want.iter().map(|(_, v)| (*v).clone()).collect();
				if got != wantv {
					return Err(format!("get({:?}) = {:?}, entries carrying that key hold {:?}", k, got, wantv));
				}
				let got: Vec<(String, RVal)> = o
					.get_entries(k)
					.map(|e| (e.key.as_str().to_string(), to_rval(&e.value)))
					.collect();
				if got.len() != want.len() || got.iter().zip(&want).any(|(g, w)| g.0 != k || g.1 != *w.1) {
					return Err(format!("get_entries({:?}) = {:?}, expected {:?}", k, got, wantv));
				}
				let got: Vec<usize> = o.get_with_index(k).map(|(i, _)| i).collect();
				let wanti: Vec<usize> = want.iter().map(|(i, _)| *i).collect();
				if got != wanti {
					return Err(format!("get_with_index({:?}) positions {:?}, expected {:?}", k, got, wanti));
				}
				let got: Vec<usize> = o.indexes_of(k).collect();
				if got != wanti {
					return Err(format!("indexes_of({:?}) = {:?}, expected {:?}", k, got, wanti));
				}
				if o.index_of(k) != wanti.first().copied() {
					return Err(format!("index_of({:?}) = {:?}, expected {:?}", k, o.index_of(k), wanti.first()));
				}
				if o.contains_key(k) != !wanti.is_empty() {
					return Err(format!("contains_key({:?}) = {}", k, o.contains_key(k)));
				}
				n += 6;
				if wanti.len() >= 2 && wanti.len() <= 64 && o.len() <= 4096 {
					// mutable lookup, in order
					let mut c = o.clone();
					let got: Vec<RVal> = c.get_mut(k).map(|v| to_rval(v)).collect();
					if got != wantv {
						return Err(format!("get_mut({:?}) yields {:?}, entries carrying that key hold {:?}", k, got, wantv));
					}
					// every way of consuming the lookup iterators
					n += crate::monitor::check_iter(&format!("indexes_of({:?})", k), &|| o.indexes_of(k), &wanti)?;
					n += crate::monitor::check_iter_ord(&format!("indexes_of({:?})", k), &|| o.indexes_of(k), &|i: usize| i)?;
					n += crate::monitor::check_iter_ord(&format!("get({:?})", k), &|| o.get(k), &|v: &Value| v as *const Value as usize)?;
					let ptrs: Vec<usize> = wanti.iter().map(|&i| &o.entries()[i].value as *const Value as usize).collect();
					n += crate::monitor::check_iter_by(&format!("get({:?})", k), &|| o.get(k), &|v: &Value| v as *const Value as usize, &ptrs)?;
					let wi: Vec<(usize, usize)> = wanti.iter().zip(&ptrs).map(|(i, p)| (*i, *p)).collect();
					n += crate::monitor::check_iter_by(&format!("get_with_index({:?})", k), &|| o.get_with_index(k), &|(i, v): (usize, &Value)| (i, v as *const Value as usize), &wi)?;
					let ep: Vec<usize> = wanti.iter().map(|&i| &o.entries()[i] as *const json_syntax::object::Entry as usize).collect();
					n += crate::monitor::check_iter_by(&format!("get_entries({:?})", k), &|| o.get_entries(k), &|e: &json_syntax::object::Entry| e as *const json_syntax::object::Entry as usize, &ep)?;
				}
			}
			for (e, (_, rv)) in o.iter().zip(ro) {
				n += check_lookups(&e.value, rv)?;
			}
		}
		_ => (),
	}
	Ok(n)
}

/// For every byte offset of `s` that is a character boundary (and `s.len()`),
/// the offset of that boundary when characters have the lengths given by `w`.
pub fn width_offsets(s: &str, w: real::Widths) -> Vec<usize> {
	let mut v = vec![usize::MAX; s.len() + 1];
	let mut u = 0usize;
	for (i, c) in s.char_indices() {
		v[i] = u;
		u += w.of(c);
	}
	v[s.len()] = u;
	v
}

/// Converts the offsets of an error reported in the units of `w` back to byte
/// offsets; `None` when one of them is not a character boundary.
fn err_to_utf8(e: &PErr, s: &str, w: real::Widths) -> Option<PErr> {
	let fwd = width_offsets(s, w);
	let back = |u: usize| fwd.iter().position(|x| *x == u);
	Some(match e {
		PErr::Unexpected(p, c) => PErr::Unexpected(back(*p)?, *c),
		PErr::InvalidUtf8(p) => PErr::InvalidUtf8(back(*p)?),
		PErr::Stream(p) => PErr::Stream(back(*p)?),
		PErr::MissingLow { start, end, hi } => PErr::MissingLow {
			start: back(*start)?,
			end: back(*end)?,
			hi: *hi,
		},
		PErr::InvalidLow { start, end, hi, cp } => PErr::InvalidLow {
			start: back(*start)?,
			end: back(*end)?,
			hi: *hi,
			cp: *cp,
		},
		PErr::InvalidCp { start, end, cp } => PErr::InvalidCp {
			start: back(*start)?,
			end: back(*end)?,
			cp: *cp,
		},
		other => other.clone(),
	})
}

impl Mon {
	pub fn new(flags: Flags, seed: u64) -> Self {
		let mut reader = Reader::new();
		reader.track_cov = flags.c01;
		Mon {
			flags,
			reader,
			rep: Report::new(),
			tick: 0,
			rng: Rng::new(seed),
			scratch: Vec::new(),
		}
	}

	fn viol(&mut self, prop: &str, cat: &str, fam: &str, what: String, input: &[u8], extra: serde_json::Value) {
		self.rep.count(&format!("viol:{}:{}", prop, cat), 1);
		self.rep.violation(
			format!("{}:{}", prop, cat),
			format!("[{}] input `{}`: {}", fam, show(input), what),
			json!({"sub": "parse-input", "family": fam, "input_hex": hex(input), "detail": extra}),
		);
	}

	/// The typed `Parse` impls (`()`, `bool`, `NumberBuf`, `String`) on an
	/// arbitrary text. They parse exactly one token at offset 0: no blank is
	/// skipped before it and nothing is demanded of what follows a complete
	/// literal or string. Expected outcome from the token grammars: a text that
	/// cannot start the token is refused at offset 0; an error inside the token
	/// is the one the reference reports; a complete token yields its value and
	/// the single code-map entry (0, token length).
	pub fn typed_input(&mut self, fam: &str, s: &str) {
		#[derive(Debug)]
		enum Want {
			Err(usize, Option<char>),
			/// whatever the reference says about this derived document
			AsDocument(usize),
			Ok(usize),
			/// a complete number followed by a character that is neither blank nor end: both are fine
			OkOrErr(usize, Option<char>),
		}
		let first = s.chars().next();
		self.rep.evaluations += 1;
		for kind in ['n', 't', '0', '"'] {
			let starts = match (kind, first) {
				('n', Some('n')) => true,
				('t', Some('t' | 'f')) => true,
				('0', Some('-' | '0'..='9')) => true,
				('"', Some('"')) => true,
				_ => false,
			};
			let want = if !starts {
				Want::Err(0, first)
			} else {
				match kind {
					'n' | 't' => {
						let word = match first {
							Some('n') => "null",
							Some('t') => "true",
							_ => "false",
						};
						let lcp = s.bytes().zip(word.bytes()).take_while(|(a, b)| a == b).count();
						if lcp == word.len() {
							Want::Ok(lcp)
						} else {
							Want::Err(lcp, s[lcp..].chars().next())
						}
					}
					'"' => {
						let mut esc = false;
						let mut end = s.len();
						for (i, c) in s.char_indices().skip(1) {
							if esc {
								esc = false;
							} else if c == '\\' {
								esc = true;
							} else if c == '"' {
								end = i + 1;
								break;
							}
						}
						Want::AsDocument(end)
					}
					_ => {
						let r = s.bytes().take_while(|b| matches!(b, b'-' | b'+' | b'.' | b'e' | b'E' | b'0'..=b'9')).count();
						let follow = s[r..].chars().next();
						let rd = self.reader.read(s[..r].as_bytes(), false);
						match rd.stop {
							None => match follow {
								None | Some(' ' | '\t' | '\n' | '\r') => Want::Ok(r),
								f => Want::OkOrErr(r, f),
							},
							Some((e, Some(c))) => Want::Err(e, Some(c)),
							Some((_, None)) => Want::Err(r, follow),
						}
					}
				}
			};
			for slice in [false, true] {
				let got = real::parse_typed(if kind == 't' { first.filter(|c| *c == 'f').unwrap_or('t') } else { kind }, s, slice);
				self.rep.count("typed_parse_impl_calls_on_arbitrary_text", 1);
				let entry = format!("typed Parse impl ({}, {})", match kind { 'n' => "()", 't' => "bool", '0' => "NumberBuf", _ => "String" }, if slice { "slice" } else { "str" });
				let b = s.as_bytes();
				let (end, must_ok, may_err): (usize, bool, Option<(usize, Option<char>)>) = match &want {
					Want::Err(p, c) => (0, false, Some((*p, *c))),
					Want::Ok(e) => (*e, true, None),
					Want::OkOrErr(e, c) => (*e, true, Some((*e, *c))),
					Want::AsDocument(e) => (*e, true, None),
				};
				let doc = &b[..end.max(0)];
				if let Want::AsDocument(_) = want {
					let rd = self.reader.read(doc, true);
					match (&got, rd.accepts(Opts::STRICT)) {
						(Ok((v, map)), true) => {
							if self.flags.c02 {
								self.compare_tree("C02", &entry, fam, b, &rd, v);
							}
							if self.flags.c05 && *map != vec![(0usize, end, 1usize)] {
								self.viol("C05", "span", fam, format!("{} returns the code map {:?}, expected [(0, {}, 1)]", entry, map, end), b, json!({"entry": entry}));
							}
						}
						(Ok(_), false) => {
							if self.flags.c01 {
								self.viol("C01", "typed-impl-accepts-invalid", fam, format!("{} accepts although the string token `{}` is ill-formed", entry, show(doc)), b, json!({"entry": entry}));
							}
						}
						(Err(e), true) => {
							if self.flags.c01 {
								self.viol("C01", "typed-impl-rejects-valid", fam, format!("{} fails with {:?} although the text starts with the complete string token `{}`", entry, e, show(doc)), b, json!({"entry": entry}));
							}
						}
						(Err(e), false) => {
							if self.flags.c07 {
								if let Err(m) = check_error(&rd, e) {
									self.viol("C07", &format!("typed-impl:{}", err_name(e)), fam, format!("{}: {}", entry, m), b, json!({"entry": entry, "error": format!("{:?}", e)}));
								}
							}
						}
					}
					continue;
				}
				match &got {
					Ok((v, map)) => {
						if !must_ok {
							if self.flags.c01 || self.flags.c07 {
								let prop = if self.flags.c01 { "C01" } else { "C07" };
								self.viol(prop, "typed-impl-accepts-invalid", fam, format!("{} accepts; expected {:?}", entry, want), b, json!({"entry": entry}));
							}
							continue;
						}
						let want_v = match kind {
							'n' => RVal::Null,
							't' => RVal::Bool(first == Some('t')),
							_ => RVal::Num(s[..end].to_string()),
						};
						if self.flags.c02 && to_rval(v) != want_v {
							self.viol("C02", &format!("value-differs:{}", entry), fam, format!("{} returns {:?}, expected {:?}", entry, trunc(&to_rval(v)), want_v), b, json!({"entry": entry}));
						}
						if self.flags.c05 && *map != vec![(0usize, end, 1usize)] {
							self.viol("C05", "span", fam, format!("{} returns the code map {:?}, expected [(0, {}, 1)]", entry, map, end), b, json!({"entry": entry}));
						}
					}
					Err(PErr::Unexpected(p, c)) if may_err == Some((*p, *c)) => {}
					Err(e) => {
						if may_err.is_none() {
							if self.flags.c01 {
								self.viol("C01", "typed-impl-rejects-valid", fam, format!("{} fails with {:?}; expected {:?}", entry, e, want), b, json!({"entry": entry}));
							}
						} else if self.flags.c07 {
							self.viol("C07", &format!("typed-impl:{}", err_name(e)), fam, format!("{} fails with {:?}; expected {:?}", entry, e, want), b, json!({"entry": entry, "error": format!("{:?}", e)}));
						}
					}
				}
			}
		}
	}

	/// Feeds one input to the monitors selected by the flags.
	pub fn input(&mut self, fam: &str, b: &[u8]) {
		let f = self.flags;
		self.tick += 1;
		self.rep.evaluations += 1;
		let rd = self.reader.read(b, f.needs_tree() && b.len() <= 1 << 20);
		let text = if rd.valid_up_to == b.len() {
			Some(std::str::from_utf8(b).unwrap())
		} else {
			None
		};
		let want_strict = rd.accepts(Opts::STRICT);
		if want_strict {
			self.rep.count("reference_accepts", 1)
		} else if rd.invalid_utf8 {
			self.rep.count("reference_rejects_ill_formed_utf8", 1)
		} else if rd.stop.is_some() {
			self.rep.count("reference_rejects_syntax", 1)
		} else {
			self.rep.count("reference_rejects_surrogate", 1)
		}

		let rs = real::parse_slice_with(b, Opts::STRICT);

		// the same bytes at another address alignment (a sub-slice of a larger buffer) must give the same
		// outcome: whatever the byte-slice front end does word-wise must not depend on where the slice starts
		if b.len() >= 16 && (self.tick % 4 == 3 || fam == "corpus-edits") {
			let off = 1 + (self.tick as usize / 4) % 15;
			self.scratch.clear();
			self.scratch.resize(off, b'#');
			self.scratch.extend_from_slice(b);
			let shifted = std::mem::take(&mut self.scratch);
			let rs2 = real::parse_slice_with(&shifted[off..], Opts::STRICT);
			self.rep.count("byte_inputs_reparsed_at_another_alignment", 1);
			let same = match (&rs, &rs2) {
				(Ok((v1, m1)), Ok((v2, m2))) => m1 == m2 && (b.len() > 4096 || v1 == v2),
				(Err(e1), Err(e2)) => e1 == e2,
				_ => false,
			};
			if !same {
				let prop = if f.c01 && rs.is_ok() != rs2.is_ok() { "C01" } else if f.c07 { "C07" } else if f.c05 { "C05" } else if f.c02 { "C02" } else if f.c12 { "C12" } else { "C01" };
				self.viol(
					prop,
					"alignment-dependent",
					fam,
					format!("parse_slice_with gives {:?} on the buffer itself and {:?} on the same bytes at address offset {}", rs.as_ref().map(|_| "Ok").map_err(|e| e.clone()), rs2.as_ref().map(|_| "Ok").map_err(|e| e.clone()), off),
					b,
					json!({"entry": "parse_slice_with", "offset": off}),
				);
			}
			self.scratch = shifted;
		}

		if f.c01 {
			self.c01(fam, b, &rd, text, &rs, want_strict);
		}
		if f.c07 {
			self.c07(fam, b, &rd, text, &rs);
		}
		if f.c02 || f.c05 {
			self.c02_c05(fam, b, &rd, text, &rs, want_strict);
		}
		if f.c12 {
			self.c12(fam, b, &rd, text, &rs, want_strict);
		}
	}

	fn c01(&mut self, fam: &str, b: &[u8], rd: &Reading, text: Option<&str>, rs: &PRes, want: bool) {
		if let Err(PErr::Panic(m)) = rs {
			self.viol("C01", "panic", fam, format!("parse_slice_with panicked: {}", m), b, json!(null));
			return;
		}
		if rs.is_ok() != want {
			let cat = if want { "rejects-valid" } else { "accepts-invalid" };
			let why = if want {
				format!("reference accepts, parse_slice_with(strict) returned {:?}", rs.as_ref().err())
			} else if rd.invalid_utf8 {
				format!("ill-formed UTF-8 at byte {} but parse_slice_with(strict) returned Ok", rd.valid_up_to)
			} else if let Some((p, c)) = rd.stop {
				format!("not in the grammar (stops at {} on {:?}) but parse_slice_with(strict) returned Ok", p, c)
			} else {
				"unpaired surrogate escape but parse_slice_with(strict) returned Ok".to_string()
			};
			self.viol("C01", cat, fam, why, b, json!({"entry": "parse_slice_with"}));
		}
		// the other entry points must give the same verdict
		let r2 = real::parse_slice(b);
		if r2.is_ok() != want {
			self.viol(
				"C01",
				"entry-disagrees:parse_slice",
				fam,
				format!("reference verdict accept={}, parse_slice returned {:?}", want, r2.as_ref().map(|_| "Ok")),
				b,
				json!({"entry": "parse_slice"}),
			);
		}
		if let Some(s) = text {
			let all = self.flags.all_entries || b.len() <= 3 || self.tick % 16 == 0;
			if all {
				for i in 0..real::STR_ENTRIES.len() {
					let r = real::parse_entry(i, s, Opts::STRICT);
					self.rep.count("entry_point_calls", 1);
					if r.is_ok() != want {
						self.viol(
							"C01",
							&format!("entry-disagrees:{}", real::STR_ENTRIES[i]),
							fam,
							format!(
								"reference verdict accept={}, {} returned {:?}",
								want,
								real::STR_ENTRIES[i],
								r.as_ref().map(|_| "Ok")
							),
							b,
							json!({"entry": real::STR_ENTRIES[i]}),
						);
					}
				}
				// sources with a (0, None) size hint and sources declaring other character lengths
				for k in 0..4 {
					let r = real::parse_unsized_source(k, s, Opts::STRICT);
					self.rep.count("entry_point_calls", 1);
					if r.is_ok() != want {
						self.viol("C01", "entry-disagrees:unsized-source", fam, format!("reference verdict accept={}, iterator entry point #{} over an iter::from_fn source returned {:?}", want, k, r.as_ref().map(|_| "Ok")), b, json!({"entry": "from_fn source", "which": k}));
					}
				}
				for w in real::ALL_WIDTHS {
					let r = real::parse_widths(s, Opts::STRICT, w, self.tick % 2 == 0);
					self.rep.count("entry_point_calls", 1);
					if r.is_ok() != want {
						self.viol("C01", "entry-disagrees:declared-lengths", fam, format!("reference verdict accept={}, a source declaring {:?} character lengths returned {:?}", want, w, r.as_ref().map(|_| "Ok")), b, json!({"entry": "DecodedChar::new source", "widths": format!("{:?}", w)}));
					}
				}
			} else {
				let r = real::parse_str(s);
				self.rep.count("entry_point_calls", 1);
				if r.is_ok() != want {
					self.viol(
						"C01",
						"entry-disagrees:parse_str",
						fam,
						format!("reference verdict accept={}, parse_str returned {:?}", want, r.as_ref().map(|_| "Ok")),
						b,
						json!({"entry": "parse_str"}),
					);
				}
			}
		}
	}

	fn c07(&mut self, fam: &str, b: &[u8], rd: &Reading, text: Option<&str>, rs: &PRes) {
		if let Err(e) = rs {
			self.rep.count(&format!("error_variant:{}", err_name(e)), 1);
			if let Err(m) = check_error(rd, e) {
				self.viol("C07", &format!("slice:{}", err_name(e)), fam, m, b, json!({"entry": "parse_slice_with", "error": format!("{:?}", e)}));
			}
		}
		if let Some(s) = text {
			let r = real::parse_str(s);
			if let Err(e) = &r {
				if let Err(m) = check_error(rd, e) {
					self.viol("C07", &format!("str:{}", err_name(e)), fam, m, b, json!({"entry": "parse_str", "error": format!("{:?}", e)}));
				}
			}
			// a sample of the other entry points
			if self.tick % 8 == 0 {
				let i = (self.tick / 8) as usize % real::STR_ENTRIES.len();
				let r = real::parse_entry(i, s, Opts::STRICT);
				if let Err(e) = &r {
					if let Err(m) = check_error(rd, e) {
						self.viol(
							"C07",
							&format!("{}:{}", real::STR_ENTRIES[i], err_name(e)),
							fam,
							m,
							b,
							json!({"entry": real::STR_ENTRIES[i], "error": format!("{:?}", e)}),
						);
					}
				}
			}
			// the same text through character sources that declare other encoded lengths (UTF-16 units or
			// bytes, UTF-32, an escaped embedding): offsets are then in those units
			if self.tick % 8 == 2 || b.len() <= 3 || fam == "surrogate-element-sequences" || fam == "lexical-transition-cover" {
				let w = real::ALL_WIDTHS[(self.tick as usize / 8) % real::ALL_WIDTHS.len()];
				for fallible in [false, true] {
					if let Err(e) = real::parse_widths(s, Opts::STRICT, w, fallible) {
						self.rep.count("errors_checked_in_other_length_units", 1);
						match err_to_utf8(&e, s, w) {
							None => self.viol("C07", "declared-lengths:not-a-boundary", fam, format!("with {:?} character lengths the error {:?} has an offset that is not a character boundary", w, e), b, json!({"entry": "parse_with/parse_infallible_with over DecodedChar::new", "widths": format!("{:?}", w)})),
							Some(e8) => {
								if let Err(m) = check_error(rd, &e8) {
									self.viol("C07", &format!("declared-lengths:{}", err_name(&e)), fam, format!("with {:?} character lengths (offsets converted back to bytes): {}", w, m), b, json!({"entry": "parse_with/parse_infallible_with over DecodedChar::new", "widths": format!("{:?}", w), "error": format!("{:?}", e)}));
								}
							}
						}
					}
				}
			}
			// stream errors injected at a character position (documents free of surrogate anomalies)
			if rd.sur.is_empty() && rd.pending_at_cut.is_none() && (b.len() <= 4 || self.tick % 4 == 0) {
				let nchars = s.chars().count();
				let k = if nchars <= 6 { self.tick as usize % (nchars + 1) } else { self.rng.below(nchars + 1) };
				let off = s.char_indices().nth(k).map(|x| x.0).unwrap_or(s.len());
				let r = real::parse_with_stream_error(s, k, Opts::STRICT);
				self.rep.count("stream_error_injections", 1);
				let expect_stream = match rd.stop {
					Some((sp, _)) => off <= sp,
					None => true,
				};
				match (&r, expect_stream) {
					(Err(PErr::Stream(p)), true) if *p == off => (),
					(Err(e), false) if check_error(rd, e).is_ok() => (),
					// a parser that reads ahead may meet the failing item before it reports the earlier syntax
					// error; the property orders the two for byte input only (ill-formed UTF-8), not for a
					// failing character source: both outcomes are accepted, the position must be right
					(Err(PErr::Stream(p)), false) if *p == off => self.rep.count("stream_error_reported_before_an_earlier_syntax_error(noted)", 1),
					_ => {
						self.viol(
							"C07",
							"stream-error-position",
							fam,
							format!(
								"character source fails after {} characters (byte {}); got {:?}, expected {}",
								k,
								off,
								r.as_ref().map(|_| "Ok"),
								if expect_stream { format!("Stream({})", off) } else { format!("the syntax error at {:?}", rd.stop) }
							),
							b,
							json!({"entry": "parse_utf8_with", "fail_at": k}),
						);
					}
				}
			}
		}
	}

	fn compare_tree(&mut self, prop: &str, entry: &str, fam: &str, b: &[u8], rd: &Reading, v: &Value) -> bool {
		if let Some(root) = &rd.root {
			let got = to_rval(v);
			if got != *root {
				self.viol(
					prop,
					&format!("value-differs:{}", entry),
					fam,
					format!("{} decoded {:?}, reference content is {:?}", entry, trunc(&got), trunc(root)),
					b,
					json!({"entry": entry}),
				);
				return false;
			}
		}
		true
	}

	fn c02_c05(&mut self, fam: &str, b: &[u8], rd: &Reading, text: Option<&str>, rs: &PRes, want: bool) {
		if !want {
			// C02 and C05 also hold for documents accepted only under lenient options; and a document that
			// the parser accepts although the reference rejects it (C01's business) still has a content
			if (self.flags.c05 || self.flags.c02) && rd.grammar_ok() && rd.root.is_some() {
				let mut results: Vec<(&'static str, PRes)> = Vec::new();
				if rs.is_ok() {
					results.push(("parse_slice_with (strict; accepted although the reference rejects the document)", rs.clone()));
				}
				for o in Opts::ALL {
					if o != Opts::STRICT && rd.accepts(o) {
						results.push(("parse_slice_with(lenient options)", real::parse_slice_with(b, o)));
						if let Some(s) = text {
							results.push(("parse_str_with(lenient options)", real::parse_str_with(s, o)));
						}
						self.rep.count("code_maps_under_lenient_options", 1);
					}
				}
				self.compare_results(fam, b, rd, &results);
			}
			return;
		}
		let mut results: Vec<(&'static str, PRes)> = vec![("parse_slice_with", rs.clone())];
		if let Some(s) = text {
			results.push(("parse_str", real::parse_str(s)));
			// two iterator entry points on a sample
			if self.tick % 4 == 0 {
				results.push(("parse_utf8", real::parse_entry(4, s, Opts::STRICT)));
				results.push(("parse_infallible", real::parse_entry(10, s, Opts::STRICT)));
			}
			// and every entry point that returns a code map in turn
			if self.tick % 4 == 1 || b.len() <= 12 {
				let i = (self.tick / 4) as usize % 12;
				results.push((real::STR_ENTRIES[i], real::parse_entry(i, s, Opts::STRICT)));
			}
		}
		// the typed `Parse` impls on documents that are exactly one scalar token
		if let (Some(s), Some(root)) = (text, &rd.root) {
			if rd.frags.len() == 1 && rd.frags[0].start == 0 && rd.frags[0].end == b.len() && !matches!(root, RVal::Arr(_) | RVal::Obj(_)) {
				let kind = s.chars().next().unwrap_or('0');
				results.push(("typed Parse impl (str)", real::parse_typed(kind, s, false)));
				results.push(("typed Parse impl (slice)", real::parse_typed(kind, s, true)));
				self.rep.count("typed_parse_impl_calls", 2);
			}
		}
		self.compare_results(fam, b, rd, &results);
		// character sources that declare other encoded lengths: spans are then in those units
		if self.flags.c05 && rd.root.is_some() {
			if let Some(s) = text {
				if self.tick % 2 == 0 || b.len() <= 16 {
					let w = real::ALL_WIDTHS[(self.tick as usize / 2) % real::ALL_WIDTHS.len()];
					let m = width_offsets(s, w);
					for fallible in [false, true] {
						match real::parse_widths(s, Opts::STRICT, w, fallible) {
							Ok((v, map)) => {
								self.rep.count("code_maps_compared_in_other_length_units", 1);
								let want: Vec<(usize, usize, usize)> = rd.frags.iter().map(|f| (m[f.start], m[f.end], f.volume)).collect();
								if map != want {
									let i = map.iter().zip(&want).position(|(a, b)| a != b).unwrap_or(map.len().min(want.len()));
									self.viol(
										"C05",
										"declared-lengths",
										fam,
										format!("with {:?} character lengths code-map entry {} is {:?}, expected {:?}", w, i, map.get(i), want.get(i)),
										b,
										json!({"entry": "parse_with/parse_infallible_with over DecodedChar::new", "widths": format!("{:?}", w)}),
									);
								}
								self.compare_tree("C05", "parse_with over declared lengths", fam, b, rd, &v);
							}
							Err(e) => self.viol("C05", "declared-lengths-rejects", fam, format!("with {:?} character lengths a valid document is rejected: {:?}", w, e), b, json!({"widths": format!("{:?}", w)})),
						}
					}
				}
			}
		}
	}

	fn compare_results(&mut self, fam: &str, b: &[u8], rd: &Reading, results: &[(&'static str, PRes)]) {
		for (entry, r) in results {
			let (v, map) = match r {
				Ok(x) => x,
				Err(PErr::Panic(m)) => {
					let p = if self.flags.c02 { "C02" } else { "C05" };
					self.viol(p, "panic", fam, format!("{} panicked: {}", entry, m), b, json!({"entry": entry}));
					continue;
				}
				Err(e) => {
					if entry.starts_with("typed") {
						let p = if self.flags.c02 { "C02" } else { "C05" };
						self.viol(p, "typed-impl-rejects", fam, format!("{} rejects a valid scalar document: {:?}", entry, e), b, json!({"entry": entry}));
					}
					continue; // acceptance through the Value entry points is C01's business
				}
			};
			if self.flags.c02 {
				if self.compare_tree("C02", entry, fam, b, rd, v) {
					if let Some(root) = &rd.root {
						match check_lookups(v, root) {
							Ok(n) => self.rep.count("key_lookups_checked", n),
							Err(m) => self.viol("C02", "lookup", fam, m, b, json!({"entry": entry})),
						}
						self.rep.count("values_compared", 1);
					}
				}
			}
			if self.flags.c05 && rd.root.is_some() {
				self.rep.count("code_maps_compared", 1);
				self.rep.count("fragments_compared", rd.frags.len() as u64);
				if map.len() != rd.frags.len() {
					self.viol(
						"C05",
						"length",
						fam,
						format!("{}: code map has {} entries, the document has {} fragments", entry, map.len(), rd.frags.len()),
						b,
						json!({"entry": entry}),
					);
					continue;
				}
				let mut bad = None;
				for (i, (m, fr)) in map.iter().zip(&rd.frags).enumerate() {
					if m.0 != fr.start || m.1 != fr.end {
						bad = Some(("span", i, format!("entry {} span {}..{}, fragment text is {}..{} ({:?})", i, m.0, m.1, fr.start, fr.end, fr.kind)));
						break;
					}
					if m.2 != fr.volume {
						bad = Some(("volume", i, format!("entry {} volume {}, subtree has {} fragments ({:?} at {}..{})", i, m.2, fr.volume, fr.kind, fr.start, fr.end)));
						break;
					}
				}
				if let Some((cat, _, m)) = bad {
					self.viol("C05", cat, fam, format!("{}: {}", entry, m), b, json!({"entry": entry}));
					continue;
				}
				if map.first().map(|m| m.2) != Some(map.len()) || map.iter().any(|m| m.2 == 0) {
					self.viol("C05", "root-volume", fam, format!("{}: root volume {:?}, map length {}", entry, map.first(), map.len()), b, json!({"entry": entry}));
				}
				// alignment with the traversal
				let mut n = 0usize;
				let mut misaligned = None;
				for (i, fr) in v.traverse() {
					let k = match fr {
						FragmentRef::Value(_) => FragKind::Value,
						FragmentRef::Entry(_) => FragKind::Entry,
						FragmentRef::Key(_) => FragKind::Key,
					};
					if i != n || rd.frags.get(i).map(|f| f.kind) != Some(k) {
						misaligned = Some(i);
						break;
					}
					n += 1;
				}
				if misaligned.is_some() || n != map.len() {
					self.viol(
						"C05",
						"traverse-alignment",
						fam,
						format!("{}: traversal yields {} fragments (first misaligned: {:?}), code map has {}", entry, n, misaligned, map.len()),
						b,
						json!({"entry": entry}),
					);
				}
			}
		}
	}

	fn c12(&mut self, fam: &str, b: &[u8], rd: &Reading, text: Option<&str>, rs: &PRes, want_strict: bool) {
		// a document with surrogate escapes that is accepted under an option value, read from a source that
		// fails at character k and would go on afterwards: the only possible outcome is that stream error
		if let Some(s) = text {
			if !rd.sur.is_empty() && s.len() <= 200 && (fam == "surrogate-element-sequences" || self.tick % 4 == 2) {
				let nchars = s.chars().count();
				for o in Opts::ALL {
					if !rd.accepts(o) {
						continue;
					}
					let ks: Vec<usize> = if nchars <= 24 { (0..=nchars).collect() } else { (0..4).map(|_| self.rng.below(nchars + 1)).collect() };
					for k in ks {
						let off = s.char_indices().nth(k).map(|x| x.0).unwrap_or(s.len());
						let r = real::parse_with_stream_error(s, k, o);
						self.rep.count("stream_error_injections_under_options", 1);
						if r != Err(PErr::Stream(off)) {
							self.viol(
								"C12",
								"stream-error-under-options",
								fam,
								format!("under truncated={},invalid={} a source failing after {} characters (byte {}) gives {:?}, expected Stream({})", o.truncated, o.invalid, k, off, r.as_ref().map(|_| "Ok"), off),
								b,
								json!({"entry": "parse_utf8_with", "fail_at": k, "options": [o.truncated, o.invalid]}),
							);
							break;
						}
					}
				}
			}
		}
		for o in Opts::ALL {
			let r = if o == Opts::STRICT { rs.clone() } else { real::parse_slice_with(b, o) };
			let want = rd.accepts(o);
			let oname = format!("truncated={},invalid={}", o.truncated, o.invalid);
			self.rep.count("option_runs", 1);
			if let Err(PErr::Panic(m)) = &r {
				self.viol("C12", "panic", fam, format!("parse_slice_with({}) panicked: {}", oname, m), b, json!({"options": oname}));
				continue;
			}
			if r.is_ok() != want {
				let cat = if want { "rejects-under-options" } else { "accepts-under-options" };
				self.viol(
					"C12",
					&format!("{}:{}", cat, oname),
					fam,
					format!("under {} the reference verdict is accept={}, parse_slice_with returned {:?}", oname, want, r.as_ref().map(|_| "Ok")),
					b,
					json!({"options": oname}),
				);
				continue;
			}
			if let Ok((v, map)) = &r {
				if !want_strict {
					self.rep.count("lenient_only_accepts", 1);
				}
				if !self.compare_tree("C12", &format!("parse_slice_with({})", oname), fam, b, rd, v) {
					continue;
				}
				// the code map is exact under every option value as well
				if rd.root.is_some() {
					let want: Vec<(usize, usize, usize)> = rd.frags.iter().map(|f| (f.start, f.end, f.volume)).collect();
					if *map != want {
						let i = map.iter().zip(&want).position(|(a, b)| a != b).unwrap_or(map.len().min(want.len()));
						self.viol(
							"C12",
							&format!("code-map-under-options:{}", oname),
							fam,
							format!("under {} code-map entry {} is {:?}, the fragment is {:?} (lengths {} / {})", oname, i, map.get(i), want.get(i), map.len(), want.len()),
							b,
							json!({"options": oname}),
						);
					}
				}
				if want_strict {
					if let Ok((v0, m0)) = rs {
						if v != v0 || map != m0 {
							self.viol(
								"C12",
								&format!("strict-valid-differs:{}", oname),
								fam,
								format!("strict-valid document parses differently under {}", oname),
								b,
								json!({"options": oname}),
							);
						}
					}
				}
			}
			if let Some(s) = text {
				// every entry point that takes options must honour them
				if self.tick % 8 == 1 || b.len() <= 5 || fam == "surrogate-element-sequences" {
					for i in 0..real::STR_ENTRIES.len() {
						if !real::entry_takes_options(i) {
							continue;
						}
						let r3 = real::parse_entry(i, s, o);
						self.rep.count("option_entry_point_calls", 1);
						if r3 != r {
							self.viol(
								"C12",
								&format!("entry-ignores-options:{}", real::STR_ENTRIES[i]),
								fam,
								format!("under {} {} returns {:?} but parse_slice_with returns {:?}", oname, real::STR_ENTRIES[i], r3.as_ref().map(|_| "Ok"), r.as_ref().map(|_| "Ok")),
								b,
								json!({"options": oname, "entry": real::STR_ENTRIES[i]}),
							);
						}
					}
				}
				if self.tick % 4 == 0 {
					let r2 = real::parse_str_with(s, o);
					if r2.is_ok() != want {
						self.viol(
							"C12",
							&format!("str-entry:{}", oname),
							fam,
							format!("under {} the reference verdict is accept={}, parse_str_with returned {:?}", oname, want, r2.as_ref().map(|_| "Ok")),
							b,
							json!({"options": oname, "entry": "parse_str_with"}),
						);
					} else if let (Ok(a), Ok(bb)) = (&r, &r2) {
						if a != bb {
							self.viol("C12", "str-vs-slice", fam, format!("parse_str_with and parse_slice_with differ under {}", oname), b, json!({"options": oname}));
						}
					}
				}
			}
		}
	}
}

fn trunc(v: &RVal) -> String {
	let s = format!("{:?}", v);
	if s.len() > 300 {
		format!("{}...", s.chars().take(300).collect::<String>())
	} else {
		s
	}
}

// ---------------------------------------------------------------------------
// Workload families
// ---------------------------------------------------------------------------

pub type Body<'a> = &'a (dyn Fn(usize, &mut Mon) + Sync);

/// Runs `shards` shards of a family in parallel, each with a fresh monitor.
pub fn run_family(cfg: &Config, flags: Flags, name: &str, shards: usize, body: Body) -> (Report, Vec<u8>) {
	let covs = std::sync::Mutex::new(vec![0u8; crate::oracle::rfc8259::N_STATES * (crate::oracle::rfc8259::N_CLASSES + 1)]);
	let seed = cfg.seed;
	let rep = parallel(cfg.threads, shards, |i| {
		let mut mon = Mon::new(flags, seed ^ fnv(name.as_bytes()) ^ (i as u64).wrapping_mul(0x9E3779B97F4A7C15));
		body(i, &mut mon);
		let n = mon.rep.evaluations;
		mon.rep.count(&format!("family:{}", name), n);
		if mon.reader.track_cov {
			let mut g = covs.lock().unwrap();
			for (a, b) in g.iter_mut().zip(&mon.reader.cov) {
				*a |= *b
			}
		}
		mon.rep
	});
	(rep, covs.into_inner().unwrap())
}

/// W1 / W2: every string of 0..=max_len symbols over an alphabet.
pub fn fam_sigma(cfg: &Config, flags: Flags, name: &'static str, alphabet: &'static [&'static str], max_len: usize) -> (Report, Vec<u8>) {
	let k = alphabet.len();
	// shard by the first two symbols
	let shards = k * k + 1;
	run_family(cfg, flags, name, shards, &move |i, mon| {
		if i == k * k {
			// lengths 0 and 1
			mon.input(name, b"");
			mon.rep.distinct_by_construction(1);
			for s in alphabet {
				mon.input(name, s.as_bytes());
				mon.rep.distinct_by_construction(1);
			}
			if mon.rep.samples.is_empty() {
				mon.rep.sample(json!({"family": name, "input": alphabet[0]}));
			}
			return;
		}
		let prefix = [i / k, i % k];
		for len in 2..=max_len {
			let mut n = 0u64;
			gen::for_each_seq(alphabet, len, &prefix, &mut |b, _| {
				mon.input(name, b);
				n += 1;
			});
			mon.rep.distinct_by_construction(n);
		}
		if i == 7 * k + 3 {
			mon.rep.sample(json!({"family": name, "input": format!("{}{}...", alphabet[prefix[0]], alphabet[prefix[1]])}));
		}
	})
}

const LEXEMES: [&str; 22] = [
	"-0.1e+1",
	"12E-3",
	"0",
	"-12.50e10",
	"1.0E+2",
	"0e0",
	"-0",
	"true",
	"false",
	"null",
	"\"\\u12aF\"",
	"\"\\n\"",
	"\"a\\\"b\"",
	"\"\\uD834\\uDD1E\"",
	"\"\\\\\\/\\b\\f\\r\\t\"",
	"\"\u{e9}\u{1f600}\"",
	"[]",
	"{}",
	"[1,2]",
	"{\"a\":1,\"b\":2}",
	"[ {\"a\" : [ ] } , null ]",
	"\"\"",
];

const LOOKALIKES: [char; 12] = [
	'\u{85}', '\u{a0}', '\u{2028}', '\u{2029}', '\u{feff}', '\u{660}', '\u{ff11}', '\u{e9}', '\u{d7ff}', '\u{e000}',
	'\u{1f600}', '\u{10ffff}',
];

/// W3: every one-character continuation of every viable lexical prefix.
pub fn fam_lexical(cfg: &Config, flags: Flags) -> (Report, Vec<u8>) {
	let name = "lexical-transition-cover";
	run_family(cfg, flags, name, LEXEMES.len(), &|i, mon| {
		let lex = LEXEMES[i];
		let contexts: [(&str, &str); 3] = [("", ""), ("[", "]"), ("{\"k\":", "}")];
		let mut chars: Vec<char> = (0u8..128).map(|b| b as char).collect();
		chars.extend(LOOKALIKES);
		let mut n = 0u64;
		let mut buf = String::new();
		for (cut, _) in lex.char_indices().chain(std::iter::once((lex.len(), ' '))) {
			let (pre, rest) = lex.split_at(cut);
			for (open, close) in contexts {
				for &c in &chars {
					for complete in [false, true] {
						buf.clear();
						buf.push_str(open);
						buf.push_str(pre);
						buf.push(c);
						if complete {
							buf.push_str(rest);
							buf.push_str(close);
						}
						mon.input(name, buf.as_bytes());
						n += 1;
					}
				}
				// the prefix itself, bare and completed
				buf.clear();
				buf.push_str(open);
				buf.push_str(pre);
				mon.input(name, buf.as_bytes());
				buf.push_str(rest);
				buf.push_str(close);
				mon.input(name, buf.as_bytes());
				n += 2;
			}
		}
		mon.rep.distinct_by_construction(n);
		if i == 0 {
			mon.rep.sample(json!({"family": name, "input": "[-0.1e+1 with each of 140 characters inserted at each position]"}));
		}
	})
}

/// W4: byte strings (ill-formed UTF-8 included) at top level and inside a string literal.
pub fn fam_bytes(cfg: &Config, flags: Flags, thorough: bool) -> (Report, Vec<u8>) {
	let name = "byte-strings";
	run_family(cfg, flags, name, 256, &move |i, mon| {
		let a = i as u8;
		let mut n = 0u64;
		let mut buf: Vec<u8> = Vec::with_capacity(16);
		let mut emit = |mon: &mut Mon, bytes: &[u8]| {
			mon.input(name, bytes);
			buf.clear();
			buf.push(b'"');
			buf.extend_from_slice(bytes);
			buf.push(b'"');
			mon.input(name, &buf);
			buf.clear();
			buf.extend_from_slice(b"[1,");
			buf.extend_from_slice(bytes);
			buf.extend_from_slice(b"2]");
			mon.input(name, &buf);
		};
		// further placements: in front of a document that has an error of its own later on, and inside
		// a unicode escape (right after `\u`, and after a character that cannot continue it)
		let mut buf2: Vec<u8> = Vec::with_capacity(24);
		let mut emit_more = |mon: &mut Mon, bytes: &[u8]| {
			for (pre, post) in [(&b""[..], &b"[1,]"[..]), (&b"\"\\u"[..], &b"\""[..]), (&b"[\"\\uZ"[..], &b"\"]"[..]), (&b"{\"a\":1"[..], &b"}"[..])] {
				buf2.clear();
				buf2.extend_from_slice(pre);
				buf2.extend_from_slice(bytes);
				buf2.extend_from_slice(post);
				mon.input(name, &buf2);
			}
		};
		emit(mon, &[a]);
		emit_more(mon, &[a]);
		n += 7;
		for b in 0..=255u8 {
			emit(mon, &[a, b]);
			emit_more(mon, &[a, b]);
			n += 7;
			// 3-byte strings: all of them when the first byte is not ASCII (or thorough)
			if a >= 0x80 || thorough {
				for c in 0..=255u8 {
					emit(mon, &[a, b, c]);
					n += 3;
					if matches!(a, 0xE0 | 0xED | 0xEF | 0xF0 | 0xF4) {
						emit_more(mon, &[a, b, c]);
						n += 4;
					}
				}
			}
		}
		// structured 4-byte sequences around every boundary of table 3-7
		if a >= 0xE0 {
			for b in [0x7f, 0x80, 0x8f, 0x90, 0x9f, 0xa0, 0xbf, 0xc0] {
				for c in [0x7f, 0x80, 0xbf, 0xc0] {
					for d in [0x00, 0x22, 0x7f, 0x80, 0xbf, 0xc0] {
						emit(mon, &[a, b, c, d]);
						n += 3;
					}
				}
			}
		}
		mon.rep.distinct_by_construction(n);
		if i == 0xC0 {
			mon.rep.sample(json!({"family": name, "input_hex": "5b312cc0a0325d", "meaning": "[1,<C0 A0>2]: overlong encoding of a space"}));
		}
	})
}

/// W5: truncations and single-byte edits of the corpus.
pub fn fam_corpus(cfg: &Config, flags: Flags, thorough: bool) -> (Report, Vec<u8>) {
	let name = "corpus-edits";
	let corpus = gen::load_corpus(&cfg.repo_dir);
	let corpus = std::sync::Arc::new(corpus);
	let n_files = corpus.len();
	if n_files == 0 {
		let mut r = Report::new();
		r.inconclusive.push("corpus /repo/tests/inputs not found".into());
		return (r, Vec::new());
	}
	let c2 = corpus.clone();
	run_family(cfg, flags, name, n_files, &move |i, mon| {
		let (fname, data) = &c2[i];
		let mut n = 0u64;
		mon.input(name, data);
		n += 1;
		let positions: Vec<usize> = if data.len() <= 1024 {
			(0..=data.len()).collect()
		} else {
			let mut v: Vec<usize> = (0..64).map(|_| mon.rng.below(data.len() + 1)).collect();
			v.extend([0, 1, data.len() - 1, data.len()]);
			v
		};
		let set: &[u8] = if thorough || data.len() <= 64 { &gen::INTERESTING_BYTES } else { &gen::INTERESTING_BYTES[..14] };
		let mut buf: Vec<u8> = Vec::with_capacity(data.len() + 1);
		for &p in &positions {
			// truncation
			mon.input(name, &data[..p]);
			n += 1;
			if data.len() > 4096 {
				continue;
			}
			if p < data.len() {
				buf.clear();
				buf.extend_from_slice(&data[..p]);
				buf.extend_from_slice(&data[p + 1..]);
				mon.input(name, &buf);
				n += 1;
				for &x in set {
					if x != data[p] {
						buf.clear();
						buf.extend_from_slice(data);
						buf[p] = x;
						mon.input(name, &buf);
						n += 1;
					}
				}
			}
			for &x in set {
				buf.clear();
				buf.extend_from_slice(&data[..p]);
				buf.push(x);
				buf.extend_from_slice(&data[p..]);
				mon.input(name, &buf);
				n += 1;
			}
		}
		// edits of distinct files can coincide; count distinct conservatively per file
		mon.rep.distinct_by_construction(n / 2);
		if i == 5 {
			mon.rep.sample(json!({"family": name, "file": fname, "edits": n}));
		}
	})
}

/// W6: grammar-generated documents, valid and damaged.
pub fn fam_generated(cfg: &Config, flags: Flags, docs: u64, damage: bool) -> (Report, Vec<u8>) {
	let name = if damage { "generated-damaged" } else { "generated-valid" };
	let shards = 64usize;
	let per = (docs / shards as u64).max(1);
	let seed = cfg.seed;
	run_family(cfg, flags, name, shards, &move |i, mon| {
		let mut rng = Rng::new(seed).fork(0x6e6 + i as u64 + if damage { 1000 } else { 0 });
		for k in 0..per {
			let p = ValueParams {
				max_depth: 1 + rng.below(6),
				max_width: 2 + rng.below(6),
				..Default::default()
			};
			let v = gen::gen_value(&mut rng, &p, 0);
			let style = WriteStyle {
				whitespace: rng.below(3) as u8,
				escapes: rng.below(2) as u8,
			};
			let doc = gen::write_doc(&mut rng, &v, &style);
			if !damage {
				mon.rep.distinct_bytes(doc.as_bytes());
				mon.input(name, doc.as_bytes());
				if i == 0 && k < 2 {
					mon.rep.sample(json!({"family": name, "input": show(doc.as_bytes())}));
				}
			} else {
				let mut b = doc.into_bytes();
				for _ in 0..rng.range(1, 3) {
					b = gen::mutate_bytes(&mut rng, &b);
				}
				mon.rep.distinct_bytes(&b);
				mon.input(name, &b);
				if i == 0 && k < 2 {
					mon.rep.sample(json!({"family": name, "input": show(&b)}));
				}
			}
		}
	})
}

/// Every position-wise single-character edit / truncation of generated valid documents.
pub fn fam_edit_every_position(cfg: &Config, flags: Flags, docs: u64) -> (Report, Vec<u8>) {
	let name = "generated-every-position-edit";
	let shards = 32usize;
	let per = (docs / shards as u64).max(1);
	let seed = cfg.seed;
	run_family(cfg, flags, name, shards, &move |i, mon| {
		let mut rng = Rng::new(seed).fork(0xed17 + i as u64);
		for _ in 0..per {
			let p = ValueParams {
				max_depth: 1 + rng.below(4),
				max_width: 2 + rng.below(3),
				..Default::default()
			};
			let v = gen::gen_value(&mut rng, &p, 0);
			let style = WriteStyle {
				whitespace: rng.below(3) as u8,
				escapes: rng.below(2) as u8,
			};
			let doc = gen::write_doc(&mut rng, &v, &style);
			if doc.len() > 400 {
				continue;
			}
			let chars: Vec<(usize, char)> = doc.char_indices().collect();
			let repl = ['x', '"', '\\', ',', ':', ']', '}', '0', '-', '\u{1}', ' ', '\u{e9}'];
			let mut buf = String::new();
			for (k, &(off, c)) in chars.iter().enumerate() {
				// truncate
				mon.input(name, doc[..off].as_bytes());
				// delete
				buf.clear();
				buf.push_str(&doc[..off]);
				buf.push_str(&doc[off + c.len_utf8()..]);
				mon.input(name, buf.as_bytes());
				// replace / insert
				let r = repl[(k + i) % repl.len()];
				buf.clear();
				buf.push_str(&doc[..off]);
				buf.push(r);
				buf.push_str(&doc[off + c.len_utf8()..]);
				mon.input(name, buf.as_bytes());
				buf.clear();
				buf.push_str(&doc[..off]);
				buf.push(r);
				buf.push_str(&doc[off..]);
				mon.input(name, buf.as_bytes());
			}
			mon.rep.distinct_bytes(doc.as_bytes());
		}
	})
}

fn sur_elems() -> Vec<String> {
	let bs = '\\';
	let mut v = Vec::new();
	for u in ["D800", "dbff", "DC00", "dfFF", "0041"] {
		v.push(format!("{}u{}", bs, u));
	}
	v.push(format!("{}n", bs));
	v.push("x".to_string());
	v.push("\u{10000}".to_string());
	v
}

/// W7: every sequence of up to `max_len` string elements drawn from
/// {high escapes, low escapes, ordinary escape, short escape, raw characters},
/// as value and as key, closed / followed by garbage / unterminated.
pub fn fam_surrogates(cfg: &Config, flags: Flags, max_len: usize) -> (Report, Vec<u8>) {
	let name = "surrogate-element-sequences";
	let elems = sur_elems();
	let k = elems.len();
	run_family(cfg, flags, name, k + 1, &move |i, mon| {
		let refs: Vec<&str> = elems.iter().map(|s| s.as_str()).collect();
		let mut n = 0u64;
		let mut buf: Vec<u8> = Vec::new();
		let mut emit = |mon: &mut Mon, body: &[u8]| {
			let shapes: [(&[u8], &[u8]); 8] = [
				(b"\"", b"\""),
				(b"{\"", b"\":0}"),
				(b"[\"", b"\",1]"),
				(b"\"", b""),
				(b"\"", b"\x01\""),
				(b"\"", b"\\q\""),
				(b" \"", b"\" x"),
				(b"{\"a\":\"", b"\"}"),
			];
			for (pre, post) in shapes {
				buf.clear();
				buf.extend_from_slice(pre);
				buf.extend_from_slice(body);
				buf.extend_from_slice(post);
				mon.input(name, &buf);
			}
		};
		if i == k {
			emit(mon, b"");
			n += 8;
			// every two-character escape (and a raw quote-free neighbour) right after / before each
			// surrogate escape, alone and with one more element on either side
			let followers = ["\\\"", "\\\\", "\\/", "\\b", "\\f", "\\n", "\\r", "\\t", "/", "\u{7f}"];
			for sur in &refs[..4] {
				for f in followers {
					for third in std::iter::once("").chain(refs.iter().copied()) {
						for body in [format!("{}{}{}", sur, f, third), format!("{}{}{}", third, sur, f), format!("{}{}{}", f, sur, third)] {
							emit(mon, body.as_bytes());
							n += 8;
						}
					}
				}
			}
		} else {
			for len in 1..=max_len {
				gen::for_each_seq(&refs, len, &[i], &mut |b, _| {
					emit(mon, b);
					n += 8;
				});
			}
		}
		mon.rep.distinct_by_construction(n);
		if i == 0 {
			mon.rep.sample(json!({"family": name, "input": format!("\"{}{}x\"", elems[0], elems[0])}));
		}
	})
}

/// Exhaustive sweeps of C02: all `\uXXXX`, all surrogate pairs, all scalar
/// values raw, all backslash+ASCII pairs.
pub fn fam_escape_tables(cfg: &Config, flags: Flags) -> (Report, Vec<u8>) {
	let name = "escape-tables";
	run_family(cfg, flags, name, 1024 + 17 + 1 + 1, &move |i, mon| {
		let bs = '\\';
		let mut n = 0u64;
		let mut buf = String::new();
		if i < 1024 {
			// high surrogate 0xD800 + i, all 1024 low surrogates
			let hi = 0xD800 + i as u32;
			for lo in 0xDC00u32..=0xDFFF {
				buf.clear();
				buf.push('"');
				buf.push(bs);
				buf.push('u');
				buf.push_str(&format!("{:04x}", hi));
				buf.push(bs);
				buf.push('u');
				buf.push_str(&if lo & 1 == 0 { format!("{:04X}", lo) } else { format!("{:04x}", lo) });
				buf.push('"');
				mon.input(name, buf.as_bytes());
				n += 1;
			}
			mon.rep.count("surrogate_pairs_swept", 1024);
		} else if i < 1024 + 17 {
			// one plane of raw scalar values, as value and as key
			let plane = (i - 1024) as u32;
			for u in plane * 0x10000..(plane + 1) * 0x10000 {
				if let Some(c) = char::from_u32(u) {
					buf.clear();
					buf.push('"');
					buf.push(c);
					buf.push('"');
					mon.input(name, buf.as_bytes());
					buf.clear();
					buf.push_str("{\"");
					buf.push(c);
					buf.push_str("\":\"");
					buf.push(c);
					buf.push_str("\"}");
					mon.input(name, buf.as_bytes());
					n += 2;
					mon.rep.count("raw_scalars_swept", 1);
				}
			}
		} else if i == 1024 + 17 {
			// all 65,536 \uXXXX, lower / upper / mixed case hex
			for u in 0..=0xFFFFu32 {
				for style in 0..3 {
					let h = match style {
						0 => format!("{:04x}", u),
						1 => format!("{:04X}", u),
						_ => {
							let s = format!("{:04x}", u);
							s.chars()
								.enumerate()
								.map(|(k, ch)| if k % 2 == 0 { ch.to_ascii_uppercase() } else { ch })
								.collect()
						}
					};
					buf.clear();
					buf.push('"');
					buf.push(bs);
					buf.push('u');
					buf.push_str(&h);
					buf.push('"');
					mon.input(name, buf.as_bytes());
					n += 1;
				}
				mon.rep.count("u_escapes_swept", 1);
			}
		} else {
			// backslash + every ASCII character, alone and followed by text
			for a in 0u8..128 {
				for tail in ["", "0041", "zz"] {
					buf.clear();
					buf.push('"');
					buf.push(bs);
					buf.push(a as char);
					buf.push_str(tail);
					buf.push('"');
					mon.input(name, buf.as_bytes());
					n += 1;
				}
				mon.rep.count("backslash_pairs_swept", 1);
			}
		}
		mon.rep.distinct_by_construction(n);
		if i == 0 {
			mon.rep.sample(json!({"family": name, "input": "\"<backslash>ud800<backslash>uDC00\" ... all 1,048,576 pairs"}));
		}
	})
}

/// Valid token sequences: every document of at most `max_tokens` tokens,
/// enumerated by walking the grammar (not by filtering), each written with
/// three whitespace layouts.
pub fn fam_valid_token_docs(cfg: &Config, flags: Flags, max_tokens: usize) -> (Report, Vec<u8>) {
	let name = "valid-token-documents";
	// enumerate all documents up front (small), then shard
	let mut docs: Vec<Vec<&'static str>> = Vec::new();
	let scalars: [&'static str; 9] = ["\"a\"", "\"\"", "0", "-1", "1.5e2", "true", "false", "null", "\"\u{e9}\\n\""];
	let keys: [&'static str; 3] = ["\"a\"", "\"b\"", "\"\""];
	// recursive enumeration of values with a token budget
	fn values(budget: usize, scalars: &[&'static str], keys: &[&'static str], memo: &mut Vec<Option<Vec<Vec<&'static str>>>>) -> Vec<Vec<&'static str>> {
		if let Some(v) = &memo[budget] {
			return v.clone();
		}
		let mut out: Vec<Vec<&'static str>> = Vec::new();
		if budget >= 1 {
			for s in scalars {
				out.push(vec![*s]);
			}
		}
		if budget >= 2 {
			out.push(vec!["[", "]"]);
			out.push(vec!["{", "}"]);
			// arrays: [ v (, v)* ]
			let seqs = item_seqs(budget - 2, scalars, keys, memo, false);
			for s in seqs {
				let mut d = vec!["["];
				d.extend(s);
				d.push("]");
				out.push(d);
			}
			let seqs = item_seqs(budget - 2, scalars, keys, memo, true);
			for s in seqs {
				let mut d = vec!["{"];
				d.extend(s);
				d.push("}");
				out.push(d);
			}
		}
		memo[budget] = Some(out.clone());
		out
	}
	// non-empty comma-separated sequences of items (values, or key:value when `obj`) within a budget
	fn item_seqs(budget: usize, scalars: &[&'static str], keys: &[&'static str], memo: &mut Vec<Option<Vec<Vec<&'static str>>>>, obj: bool) -> Vec<Vec<&'static str>> {
		let mut out = Vec::new();
		let overhead = if obj { 2 } else { 0 };
		if budget < 1 + overhead {
			return out;
		}
		for first_budget in 1..=(budget - overhead) {
			let firsts: Vec<Vec<&'static str>> = values(first_budget, scalars, keys, memo)
				.into_iter()
				.filter(|v| v.len() == first_budget)
				.collect();
			if firsts.is_empty() {
				continue;
			}
			let rest_budget = budget - overhead - first_budget;
			let mut rests: Vec<Vec<&'static str>> = vec![vec![]];
			if rest_budget >= 2 + overhead {
				for r in item_seqs(rest_budget - 1, scalars, keys, memo, obj) {
					let mut x = vec![","];
					x.extend(r);
					rests.push(x);
				}
			}
			for f in &firsts {
				for r in &rests {
					if obj {
						for k in keys {
							let mut d = vec![*k, ":"];
							d.extend(f.iter().copied());
							d.extend(r.iter().copied());
							out.push(d);
						}
					} else {
						let mut d = f.clone();
						d.extend(r.iter().copied());
						out.push(d);
					}
				}
			}
		}
		out
	}
	let mut memo: Vec<Option<Vec<Vec<&'static str>>>> = vec![None; max_tokens + 1];
	docs.extend(values(max_tokens, &scalars, &keys, &mut memo));
	let docs = std::sync::Arc::new(docs);
	let total = docs.len();
	let shards = 64usize;
	let d2 = docs.clone();
	run_family(cfg, flags, name, shards, &move |i, mon| {
		let mut buf = String::new();
		let mut n = 0u64;
		let mut k = i;
		while k < total {
			let toks = &d2[k];
			for layout in 0..3 {
				buf.clear();
				match layout {
					0 => {
						for t in toks {
							buf.push_str(t)
						}
					}
					1 => {
						buf.push(' ');
						for t in toks {
							buf.push_str(t);
							buf.push(' ')
						}
					}
					_ => {
						for (j, t) in toks.iter().enumerate() {
							buf.push_str(["\n", "\t ", "", "\r\n"][(j + k) % 4]);
							buf.push_str(t);
						}
						buf.push_str("\n");
					}
				}
				mon.input(name, buf.as_bytes());
				n += 1;
			}
			k += shards;
		}
		mon.rep.distinct_by_construction(n);
		if i == 3 && total > 3 {
			mon.rep.sample(json!({"family": name, "tokens": d2[3.min(total - 1)], "documents_enumerated": total}));
		}
	})
}

/// Large generated documents (many nodes, wide objects with many duplicates).
pub fn fam_large(cfg: &Config, flags: Flags, docs: usize, nodes: usize) -> (Report, Vec<u8>) {
	let name = "large-documents";
	let seed = cfg.seed;
	run_family(cfg, flags, name, docs, &move |i, mon| {
		let mut rng = Rng::new(seed).fork(0x1a46e + i as u64);
		let v = if i == 1 {
			// a very wide array and a very wide object (beyond any 64 Ki block of a bulk path)
			RVal::Arr(vec![
				RVal::Arr((0..140_000).map(|j| RVal::Num((j % 1000).to_string())).collect()),
				RVal::Obj((0..70_000).map(|j| (format!("k{}", j), RVal::Bool(j % 3 == 0))).collect()),
			])
		} else if i % 2 == 0 {
			// one wide object: many entries, many duplicates of a few keys
			// (the long-key documents are kept below the 1 MiB up to which the reference builds its tree)
			let n = if i % 4 == 2 { nodes.min(8000) } else { nodes.min(20000) };
			let mut entries = Vec::with_capacity(n);
			for j in 0..n {
				// every other such object: keys longer than any inline capacity that share their first and
				// their last bytes and differ in the middle only
				let k = if rng.chance(1, 10) {
					"dup".to_string()
				} else if i % 4 == 2 {
					format!("urn:item:{:05}:description", rng.below(n / 2 + 1))
				} else {
					format!("k{}", rng.below(n / 2 + 1))
				};
				entries.push((k, RVal::Num(format!("{}", j))));
			}
			RVal::Obj(entries)
		} else {
			let p = ValueParams {
				max_depth: 8,
				max_width: 12,
				..Default::default()
			};
			let mut items = Vec::new();
			let mut total = 0;
			while total < nodes {
				let v = gen::gen_value(&mut rng, &p, 1);
				total += v.fragments();
				items.push(v);
			}
			RVal::Arr(items)
		};
		let style = WriteStyle {
			whitespace: 1,
			escapes: 1,
		};
		let doc = gen::write_doc(&mut rng, &v, &style);
		mon.rep.max("largest_document_bytes", doc.len() as u64);
		mon.rep.max("largest_document_fragments", v.fragments() as u64);
		mon.rep.distinct_bytes(doc.as_bytes());
		mon.input(name, doc.as_bytes());
		crate::oracle::rfc8259::drop_iter(v);
	})
}

const SWEEP_PREFIXES: [&str; 44] = [
	"", "[", "[1,", "{", "{\"a\":1,", "{\"a\"", "{\"a\":", "1 ", "[1 ", "{\"a\":1 ", "t", "tr", "tru", "f", "fa", "fal", "fals", "n", "nu", "nul",
	"-", "0", "12", "1.", "1.5", "1e", "1e+", "1e5", "[-", "[0", "[12", "[1.", "[1.5", "[1e", "[1e5", "{\"a\":12", "\"a", "\"\\", "\"\\u",
	"\"\\u1", "\"\\u12", "\"\\u12a", "[\"\\uD834", "{\"k",
];

/// Every Unicode scalar value as the next character in every lexical state
/// of the grammar (44 prefixes x 1,112,064 characters).
pub fn fam_unicode_sweep(cfg: &Config, flags: Flags) -> (Report, Vec<u8>) {
	let name = "unicode-sweep-at-every-lexical-state";
	run_family(cfg, flags, name, SWEEP_PREFIXES.len() * 17, &|i, mon| {
		let prefix = SWEEP_PREFIXES[i / 17];
		let plane = (i % 17) as u32;
		let mut buf = String::with_capacity(prefix.len() + 8);
		let mut n = 0u64;
		for u in plane * 0x10000..(plane + 1) * 0x10000 {
			if let Some(c) = char::from_u32(u) {
				buf.clear();
				buf.push_str(prefix);
				buf.push(c);
				mon.input(name, buf.as_bytes());
				n += 1;
			}
		}
		mon.rep.distinct_by_construction(n);
		if i == 22 * 17 {
			mon.rep.sample(json!({"family": name, "input": "12<c> for each of the 1,112,064 scalar values c; likewise after 43 other prefixes"}));
		}
	})
}

/// Multi-byte characters placed around every power-of-two offset from 64 bytes to
/// 128 KiB (block boundaries of buffered decoders), in valid documents and in
/// documents with an error after the boundary.
pub fn fam_block_boundaries(cfg: &Config, flags: Flags) -> (Report, Vec<u8>) {
	let name = "multi-byte-characters-at-block-boundaries";
	const BLOCKS: [usize; 12] = [64, 128, 256, 512, 1024, 2048, 4096, 8192, 16384, 32768, 65536, 131072];
	run_family(cfg, flags, name, BLOCKS.len() * 13, &|i, mon| {
		let b = BLOCKS[i / 13];
		let delta = (i % 13) as isize - 6;
		let at = (b as isize + delta) as usize; // offset of the first byte of the character
		let mut n = 0u64;
		// a run of blanks (and a blank run followed by a wrong character) straddling that offset
		for shape in 0..3 {
			let mut doc: Vec<u8> = Vec::with_capacity(at + 64);
			doc.push(b'[');
			while doc.len() + 12 < at {
				doc.extend_from_slice(b"10,");
			}
			doc.extend_from_slice(b"1");
			while doc.len() < at + 9 {
				doc.extend_from_slice(b" \n\t ");
			}
			doc.extend_from_slice(match shape {
				0 => &b",2]"[..],
				1 => &b"]"[..],
				_ => &b"x]"[..],
			});
			mon.input(name, &doc);
			n += 1;
		}
		// an ASCII-only head of that many bytes, then an ill-formed sequence (lone continuation byte, 0xFF,
		// truncated lead byte at the very end, overlong form), inside a string and between items
		for bad in [&[0x80u8][..], &[0xff], &[0xc3], &[0xc0, 0xaf], &[0xed, 0xa0, 0x80]] {
			for shape in 0..3 {
				let mut doc: Vec<u8> = Vec::with_capacity(at + 16);
				match shape {
					0 => {
						doc.push(b'"');
						doc.resize(at, b'a');
						doc.extend_from_slice(bad);
						doc.extend_from_slice(b"b\"");
					}
					1 => {
						doc.push(b'[');
						while doc.len() + 2 < at {
							doc.extend_from_slice(b"1,");
						}
						doc.resize(at, b' ');
						doc.extend_from_slice(bad);
						doc.extend_from_slice(b"]");
					}
					_ => {
						// the ill-formed sequence is the end of the input
						doc.extend_from_slice(b"[\"");
						doc.resize(at, b'z');
						doc.extend_from_slice(bad);
					}
				}
				mon.input(name, &doc);
				n += 1;
			}
		}
		for ch in ['\u{e9}', '\u{20ac}', '\u{1f600}'] {
			for shape in 0..4 {
				let mut doc: Vec<u8> = Vec::with_capacity(at + 64);
				match shape {
					0 | 1 => {
						// inside a long string
						doc.push(b'"');
						doc.resize(at, b'a');
						let mut tmp = [0u8; 4];
						doc.extend_from_slice(ch.encode_utf8(&mut tmp).as_bytes());
						doc.extend_from_slice(b"tail\"");
						if shape == 1 {
							doc.extend_from_slice(b" x");
						}
					}
					2 => {
						// inside a long array of short strings
						doc.push(b'[');
						while doc.len() + 6 < at {
							doc.extend_from_slice(b"\"ab\",");
						}
						doc.push(b'"');
						doc.resize(at, b'b');
						let mut tmp = [0u8; 4];
						doc.extend_from_slice(ch.encode_utf8(&mut tmp).as_bytes());
						doc.extend_from_slice(b"\"]");
					}
					_ => {
						// ill-formed byte right after the character
						doc.push(b'"');
						doc.resize(at, b'a');
						let mut tmp = [0u8; 4];
						doc.extend_from_slice(ch.encode_utf8(&mut tmp).as_bytes());
						doc.push(0xff);
						doc.extend_from_slice(b"\"");
					}
				}
				mon.rep.max("largest_document_bytes", doc.len() as u64);
				mon.input(name, &doc);
				n += 1;
			}
		}
		mon.rep.distinct_by_construction(n);
		if i == 4 * 13 + 3 {
			mon.rep.sample(json!({"family": name, "input": "\"aaaa...(65532 x a)<U+1F600>tail\" and variants around every offset 2^6..2^17"}));
		}
	})
}

/// Long strings and keys with a multi-byte character, an escape or an escaped
/// surrogate pair starting at every offset up to `max` (staging buffers of any size).
pub fn fam_long_strings(cfg: &Config, flags: Flags, max: usize) -> (Report, Vec<u8>) {
	let name = "long-strings-with-a-wide-element-at-every-offset";
	let bs = '\\';
	let specials: Vec<String> = vec![
		"\u{e9}".to_string(),
		"\u{20ac}".to_string(),
		"\u{1f600}".to_string(),
		format!("{}u20ac", bs),
		format!("{}uD83D{}uDE00", bs, bs),
		format!("{}n", bs),
		// an unpaired high surrogate escape followed by a wide raw character / by a wide escape
		format!("{}ud800{}", bs, '\u{e9}'),
		format!("{}uDBFF{}u20ac", bs, bs),
	];
	let specials = std::sync::Arc::new(specials);
	run_family(cfg, flags, name, 32, &move |i, mon| {
		let mut n = 0u64;
		let mut l = i;
		let mut doc = String::new();
		while l <= max {
			for (k, sp) in specials.iter().enumerate() {
				doc.clear();
				let head = "a".repeat(l);
				match (l + k) % 3 {
					0 => {
						doc.push('"');
						doc.push_str(&head);
						doc.push_str(sp);
						doc.push_str("tail\"");
					}
					1 => {
						doc.push_str("{\"");
						doc.push_str(&head);
						doc.push_str(sp);
						doc.push_str("\":1,\"");
						doc.push_str(&head);
						doc.push_str(sp);
						doc.push_str("\":[\"");
						doc.push_str(sp);
						doc.push_str(&head);
						doc.push_str("\"]}");
					}
					_ => {
						doc.push_str("[\"");
						doc.push_str(sp);
						doc.push_str(&head);
						doc.push_str(sp);
						doc.push_str(sp);
						doc.push_str("\"]");
					}
				}
				mon.input(name, doc.as_bytes());
				n += 1;
			}
			l += 32;
		}
		mon.rep.distinct_by_construction(n);
		mon.rep.max("longest_string_swept", max as u64);
	})
}

/// Uninterrupted runs of `\\uXXXX` escapes (as an ASCII-only serializer emits
/// them) of every length up to `max`, with a surrogate pair, a lone high or a
/// lone low surrogate at every position of the run; in value and key position.
pub fn fam_escape_runs(cfg: &Config, flags: Flags, max: usize) -> (Report, Vec<u8>) {
	let name = "runs-of-unicode-escapes-with-a-surrogate-at-every-position";
	run_family(cfg, flags, name, 16, &move |i, mon| {
		let bs = '\\';
		let bmp = ["00e9", "20AC", "0041", "fffd", "000a", "D7FF", "e000"];
		let mut n = 0u64;
		let mut run_len = i + 1;
		let mut doc = String::new();
		while run_len <= max {
			for at in 0..run_len {
				for kind in 0..4usize {
					// 0: pair at `at`; 1: lone high; 2: lone low; 3: pair followed by a raw control character
					let mut body = String::new();
					let mut k = 0usize;
					while k < run_len {
						if k == at {
							match kind {
								0 | 3 => {
									body.push_str(&format!("{}uD83D{}uDE00", bs, bs));
									k += 1;
								}
								1 => body.push_str(&format!("{}uDBFF", bs)),
								_ => body.push_str(&format!("{}udc00", bs)),
							}
							if kind == 3 {
								body.push('\u{1f}');
							}
						} else {
							body.push(bs);
							body.push('u');
							body.push_str(bmp[(k * 3 + run_len) % bmp.len()]);
						}
						k += 1;
					}
					doc.clear();
					match (at + kind) % 3 {
						0 => {
							doc.push('"');
							doc.push_str(&body);
							doc.push('"');
						}
						1 => {
							doc.push_str("{\"");
							doc.push_str(&body);
							doc.push_str("\":[\"");
							doc.push_str(&body);
							doc.push_str("\"]}");
						}
						_ => {
							doc.push_str("[\"x");
							doc.push_str(&body);
							doc.push_str("y\"]");
						}
					}
					mon.input(name, doc.as_bytes());
					n += 1;
				}
			}
			run_len += 16;
		}
		mon.rep.distinct_by_construction(n);
		mon.rep.max("longest_escape_run", max as u64);
	})
}

/// The typed `Parse` impls on every short text over three token alphabets
/// (literals, numbers, strings), well-formed or not.
pub fn fam_typed_impls(cfg: &Config, flags: Flags, max_len: usize) -> (Report, Vec<u8>) {
	let name = "typed-parse-impls-on-arbitrary-short-texts";
	const LIT: [&str; 13] = ["n", "u", "l", "t", "r", "e", "f", "a", "s", "x", " ", "N", "\u{e9}"];
	const NUM: [&str; 12] = ["0", "1", "9", "-", "+", ".", "e", "E", "x", " ", ",", "\u{e9}"];
	const STR: [&str; 12] = ["\"", "\\", "u", "d", "8", "0", "c", "a", "n", "\u{1}", "\u{20ac}", " "];
	let alphabets: [&'static [&'static str]; 3] = [&LIT, &NUM, &STR];
	let shards = 13 + 12 + 12;
	run_family(cfg, flags, name, shards, &move |i, mon| {
		let (a, first) = if i < 13 { (0, i) } else if i < 25 { (1, i - 13) } else { (2, i - 25) };
		let alphabet = alphabets[a];
		let mut n = 0u64;
		if first == 0 && a == 0 {
			mon.typed_input(name, "");
			n += 1;
		}
		for len in 1..=max_len {
			gen::for_each_seq(alphabet, len, &[first], &mut |b, _| {
				mon.typed_input(name, std::str::from_utf8(b).unwrap());
				n += 1;
			});
		}
		mon.rep.distinct_by_construction(n);
		if i == 0 {
			mon.rep.sample(json!({"family": name, "input": "nulx", "expected": "<()>::parse_str fails with Unexpected(3, 'x'); \"nullx\" yields () with the code map [(0, 4, 1)]"}));
		}
	})
}

/// Documents whose nesting follows an irregular pattern of arrays and objects,
/// depth 1..=max (every depth), closed properly or damaged at one level; also
/// wide objects with few distinct keys (n entries cycling over k keys).
pub fn fam_nesting_patterns(cfg: &Config, flags: Flags, max: usize) -> (Report, Vec<u8>) {
	let name = "irregular-nesting-patterns-and-wide-objects-with-few-keys";
	let seed = cfg.seed;
	run_family(cfg, flags, name, 32, &move |i, mon| {
		let mut rng = Rng::new(seed).fork(0x9e57 + i as u64);
		let mut n = 0u64;
		let mut depth = i + 1;
		let mut doc = String::new();
		while depth <= max {
			for variant in 0..6usize {
				// the kind of every level: random, or periodic with a period that is not a power of two
				let kinds: Vec<bool> = (0..depth)
					.map(|l| match variant {
						0 | 1 | 5 => rng.chance(1, 2),
						2 => l % 3 == 0,
						3 => l % 5 < 2,
						_ => (l / 7) % 2 == 0,
					})
					.collect();
				doc.clear();
				for (l, obj) in kinds.iter().enumerate() {
					if *obj {
						if l % 4 == 1 {
							doc.push_str("{\"p\":0,");
						} else {
							doc.push('{');
						}
						doc.push_str("\"k\":");
					} else {
						doc.push('[');
						if l % 3 == 2 {
							doc.push_str("true,");
						}
					}
				}
				doc.push_str(["1", "\"s\"", "{}", "[]", "null"][depth % 5]);
				let damaged_level = if variant == 5 { Some(rng.below(depth)) } else { None };
				for (l, obj) in kinds.iter().enumerate().rev() {
					if l % 5 == 4 {
						doc.push_str(if *obj { ",\"z\":[]" } else { ",2" });
					}
					// a damaged document closes one level with the wrong bracket
					let close_obj = if damaged_level == Some(l) { !*obj } else { *obj };
					doc.push(if close_obj { '}' } else { ']' });
				}
				mon.input(name, doc.as_bytes());
				n += 1;
			}
			mon.rep.max("deepest_irregular_nesting", depth as u64);
			depth += 32;
		}
		// wide objects with few distinct keys: n entries cycling over k keys
		for k in [1usize, 2, 3, 8, 31, 32, 33] {
			let mut entries = i + 1;
			while entries <= 100 {
				doc.clear();
				doc.push('{');
				for e in 0..entries {
					if e > 0 {
						doc.push(',');
					}
					doc.push_str(&format!("\"key{}\":{}", (e * 7) % k, e));
				}
				doc.push('}');
				mon.input(name, doc.as_bytes());
				n += 1;
				entries += 32;
			}
		}
		mon.rep.distinct_by_construction(n);
	})
}

/// Long lexemes other than strings: digit runs of every length in each part of
/// a number, blank runs of every length between tokens, long runs of one-token
/// items; each also followed by something ill-formed.
pub fn fam_long_lexemes(cfg: &Config, flags: Flags, max: usize) -> (Report, Vec<u8>) {
	let name = "long-numbers-blank-runs-and-item-runs-of-every-length";
	run_family(cfg, flags, name, 32, &move |i, mon| {
		let mut n = 0u64;
		let mut l = i + 1;
		let mut doc = String::new();
		let blanks = [' ', '\t', '\n', '\r'];
		while l <= max {
			let digits: String = (0..l).map(|k| char::from(b'1' + ((k * 7 + l) % 9) as u8)).collect();
			let zeros = "0".repeat(l);
			let ws: String = (0..l).map(|k| blanks[(k + l) % 4]).collect();
			let docs: [String; 14] = [
				digits.clone(),
				format!("-{}", digits),
				format!("[0.{},1]", digits),
				format!("{{\"k\":-{}.{}e-{}}}", digits, zeros, digits),
				format!("[1E+{} ,2]", zeros),
				format!("[{}.5e1{}]", digits, zeros),
				// ill-formed tails after a long run
				format!("[{}.]", digits),
				format!("{}e", digits),
				format!("[{}{}]", digits, '\u{e9}'),
				format!("0{}", digits),
				// blank runs
				format!("{}[{}1{},{}{{{}\"a\"{}:{}null{}}}{}]{}", ws, ws, ws, ws, ws, ws, ws, ws, ws, ws),
				format!("[1{}2]", ws),
				format!("{}{}1", ws, '\u{a0}'),
				// runs of small items
				format!("[{}[]]", "0,".repeat(l)),
			];
			for d in docs.iter() {
				doc.clear();
				doc.push_str(d);
				mon.input(name, doc.as_bytes());
				n += 1;
			}
			l += 32;
		}
		mon.rep.distinct_by_construction(n);
		mon.rep.max("longest_lexeme_swept", max as u64);
	})
}

/// Reference self-test against the corpus labels (y_ accepted, n_ rejected).
pub fn selftest_reference(cfg: &Config) -> Result<usize, String> {
	let corpus = gen::load_corpus(&cfg.repo_dir);
	let mut rd = Reader::new();
	let mut n = 0;
	for (name, data) in &corpus {
		let r = rd.read(data, false);
		let acc = r.accepts(Opts::STRICT);
		if name.starts_with("y_") && !acc {
			return Err(format!("reference reader rejects {}", name));
		}
		if name.starts_with("n_") && acc {
			return Err(format!("reference reader accepts {}", name));
		}
		n += 1;
	}
	// a few spans by hand
	let r = rd.read(b" {\"a\": [1, {}], \"b\":\"x\"} ", true);
	let spans: Vec<(usize, usize, usize)> = r.frags.iter().map(|f| (f.start, f.end, f.volume)).collect();
	let want = vec![(1, 24, 9), (2, 14, 5), (2, 5, 1), (7, 14, 3), (8, 9, 1), (11, 13, 1), (16, 23, 3), (16, 19, 1), (20, 23, 1)];
	if spans != want {
		return Err(format!("reference spans self-test: got {:?}, want {:?}", spans, want));
	}
	Ok(n)
}

/// Thousands of containers open at once, then a wrong character: the error is at that character,
/// not at one of the brackets before it (a nesting limit would report one of those).
pub fn fam_deep_errors(cfg: &Config, flags: Flags) -> (Report, Vec<u8>) {
	let name = "errors-below-thousands-of-open-containers";
	let depths: &'static [usize] = if cfg.san { &[300, 1030] } else { &[1023, 1024, 1025, 4095, 4096, 4097, 5000, 9000, 20_000, 65_537] };
	run_family(cfg, flags, name, depths.len(), &move |i, mon| {
		let d = depths[i];
		let mut n = 0u64;
		for shape in 0..4usize {
			let mut doc: Vec<u8> = Vec::with_capacity(d * 6 + 8);
			for l in 0..d {
				match shape {
					0 => doc.push(b'['),
					1 => doc.extend_from_slice(b"{\"a\":"),
					_ => doc.extend_from_slice(if l % 2 == 0 { b"[" } else { b"{\"k\":" }),
				}
			}
			doc.extend_from_slice(if shape == 3 { b"1 x" } else { b"x" });
			mon.input(name, &doc);
			n += 1;
		}
		mon.rep.max("most_containers_open_at_an_error", d as u64);
		mon.rep.distinct_by_construction(n);
	})
}
