//! Printer checks: C04 (round trip under any options), C08 (compact output is
//! the unique minimal serialization), C13 (layout follows the documented
//! options and limits).

use crate::gen::{self, ValueParams};
use crate::monitor::conv::{from_rval, from_rval_push, to_rval};
use crate::monitor::{conclude, fnv, guard, parallel, show, Config, EvidenceMeta, Report, Tier};
use crate::oracle::print::{self as pr, PIndent, PLimit, POpts};
use crate::oracle::rfc8259::{Opts, RVal, Reader};
use crate::rng::Rng;
use json_syntax::{Parse, Print, Value};
use serde_json::json;
use std::time::Instant;

fn print_real(v: &Value, o: &POpts) -> Result<String, String> {
	let ro = o.to_real();
	guard(|| v.print_with(ro).to_string())
}

/// `Print::fmt_with` called by a caller that is itself at depth `self.2`
/// (what a user-defined `Print` type embedding a value does).
struct AtDepth<'a, T: Print>(&'a T, json_syntax::print::Options, usize);

impl<'a, T: Print> std::fmt::Display for AtDepth<'a, T> {
	fn fmt(&self, f: &mut std::fmt::Formatter) -> std::fmt::Result {
		self.0.fmt_with(f, &self.1, self.2)
	}
}

/// A user-defined container printed through the crate's public generic helpers
/// (`pre_compute_array_size`, `print_array`, ...): lists and maps with holes, of which only the
/// present members are printed. The measuring pass walks filtering iterators, whose size hint has
/// an upper bound larger than the number of members.
enum User {
	Leaf(Value),
	List(Vec<Option<User>>),
	Map(Vec<(String, Option<User>)>),
}

impl User {
	fn of(r: &RVal, depth: usize) -> User {
		match r {
			RVal::Arr(a) if depth % 3 != 2 => {
				let mut items = Vec::new();
				for (i, x) in a.iter().enumerate() {
					if (i + depth) % 2 == 0 {
						items.push(None);
					}
					items.push(Some(User::of(x, depth + 1)));
				}
				items.push(None);
				User::List(items)
			}
			RVal::Obj(e) if depth % 3 != 2 => {
				let mut entries = Vec::new();
				for (i, (k, x)) in e.iter().enumerate() {
					if (i + depth) % 2 == 1 {
						entries.push(("hole".to_string(), None));
					}
					entries.push((k.clone(), Some(User::of(x, depth + 1))));
				}
				entries.push((String::new(), None));
				User::Map(entries)
			}
			x => User::Leaf(from_rval(x)),
		}
	}
}

impl json_syntax::print::PrecomputeSize for User {
	fn pre_compute_size(&self, options: &json_syntax::print::Options, sizes: &mut Vec<json_syntax::print::Size>) -> json_syntax::print::Size {
		match self {
			User::Leaf(v) => v.pre_compute_size(options, sizes),
			User::List(items) => json_syntax::print::pre_compute_array_size(items.iter().filter_map(|x| x.as_ref()), options, sizes),
			User::Map(entries) => json_syntax::print::pre_compute_object_size(entries.iter().filter_map(|(k, v)| v.as_ref().map(|v| (k.as_str(), v))), options, sizes),
		}
	}
}

impl json_syntax::print::PrintWithSize for User {
	fn fmt_with_size(&self, f: &mut std::fmt::Formatter, options: &json_syntax::print::Options, indent: usize, sizes: &[json_syntax::print::Size], index: &mut usize) -> std::fmt::Result {
		match self {
			User::Leaf(v) => v.fmt_with_size(f, options, indent, sizes, index),
			User::List(items) => {
				let present: Vec<&User> = items.iter().filter_map(|x| x.as_ref()).collect();
				json_syntax::print::print_array(present, f, options, indent, sizes, index)
			}
			User::Map(entries) => {
				let present: Vec<(&str, &User)> = entries.iter().filter_map(|(k, v)| v.as_ref().map(|v| (k.as_str(), v))).collect();
				json_syntax::print::print_object(present, f, options, indent, sizes, index)
			}
		}
	}
}

impl Print for User {
	fn fmt_with(&self, f: &mut std::fmt::Formatter, options: &json_syntax::print::Options, indent: usize) -> std::fmt::Result {
		use json_syntax::print::{PrecomputeSize, PrintWithSize};
		let mut sizes = Vec::new();
		self.pre_compute_size(options, &mut sizes);
		let mut index = 0;
		self.fmt_with_size(f, options, indent, &sizes, &mut index)
	}
}

fn opts_json(o: &POpts) -> serde_json::Value {
	let ind = match o.indent {
		PIndent::Spaces(n) => json!({"spaces": n}),
		PIndent::Tabs(n) => json!({"tabs": n}),
	};
	let lim = |l: Option<PLimit>| match l {
		None => json!(null),
		Some(PLimit::Always) => json!("always"),
		Some(PLimit::Item(i)) => json!({"item": i}),
		Some(PLimit::Width(w)) => json!({"width": w}),
		Some(PLimit::ItemOrWidth(i, w)) => json!({"item": i, "width": w}),
	};
	json!({
		"indent": ind,
		"array": [o.array_begin, o.array_end, o.array_empty, o.array_before_comma, o.array_after_comma],
		"array_limit": lim(o.array_limit),
		"object": [o.object_begin, o.object_end, o.object_empty, o.object_before_comma, o.object_after_comma, o.object_before_colon, o.object_after_colon],
		"object_limit": lim(o.object_limit),
	})
}

fn opts_from_json(j: &serde_json::Value) -> Option<POpts> {
	let mut o = POpts::compact();
	let ind = j.get("indent")?;
	o.indent = if let Some(n) = ind.get("spaces") { PIndent::Spaces(n.as_u64()? as u8) } else { PIndent::Tabs(ind.get("tabs")?.as_u64()? as u8) };
	let a: Vec<usize> = j.get("array")?.as_array()?.iter().filter_map(|x| x.as_u64().map(|x| x as usize)).collect();
	let ob: Vec<usize> = j.get("object")?.as_array()?.iter().filter_map(|x| x.as_u64().map(|x| x as usize)).collect();
	if a.len() != 5 || ob.len() != 7 {
		return None;
	}
	o.array_begin = a[0];
	o.array_end = a[1];
	o.array_empty = a[2];
	o.array_before_comma = a[3];
	o.array_after_comma = a[4];
	o.object_begin = ob[0];
	o.object_end = ob[1];
	o.object_empty = ob[2];
	o.object_before_comma = ob[3];
	o.object_after_comma = ob[4];
	o.object_before_colon = ob[5];
	o.object_after_colon = ob[6];
	let lim = |l: &serde_json::Value| -> Option<PLimit> {
		if l.is_null() {
			None
		} else if l.as_str() == Some("always") {
			Some(PLimit::Always)
		} else {
			let i = l.get("item").and_then(|x| x.as_u64()).map(|x| x as usize);
			let w = l.get("width").and_then(|x| x.as_u64()).map(|x| x as usize);
			match (i, w) {
				(Some(i), Some(w)) => Some(PLimit::ItemOrWidth(i, w)),
				(Some(i), None) => Some(PLimit::Item(i)),
				(None, Some(w)) => Some(PLimit::Width(w)),
				_ => None,
			}
		}
	};
	o.array_limit = lim(j.get("array_limit")?);
	o.object_limit = lim(j.get("object_limit")?);
	Some(o)
}

fn doc_of(v: &RVal) -> String {
	let mut s = String::new();
	pr::compact(v, &mut s);
	s
}

fn case_json(sub: &str, v: &RVal, o: &POpts) -> serde_json::Value {
	json!({"sub": sub, "value_compact": doc_of(v), "options": opts_json(o)})
}

/// Values for the printer checks: every string class, valid number spellings,
/// duplicate and empty keys, empty containers, moderate depth.
fn gen_print_value(rng: &mut Rng) -> RVal {
	let p = ValueParams {
		max_depth: 1 + rng.below(5),
		max_width: 1 + rng.below(5),
		..Default::default()
	};
	gen::gen_value(rng, &p, 0)
}

/// Small values whose one-line widths sit near the usual thresholds.
fn gen_layout_value(rng: &mut Rng) -> RVal {
	fn leaf(rng: &mut Rng) -> RVal {
		match rng.below(12) {
			0 => RVal::Null,
			1 => RVal::Bool(rng.chance(1, 2)),
			2..=4 => RVal::Num(format!("{}", rng.below(100000))),
			5 => RVal::Str(['\u{e9}', '"', '\n', '\u{1}', '\u{b}', 'a', '\u{1f600}', '\\', '\u{7f}', '\u{80}', '\u{9f}', '/'].iter().filter(|_| rng.chance(1, 2)).collect()),
			6..=7 => RVal::Str((0..rng.below(12)).map(|_| (b'a' + rng.below(26) as u8) as char).collect()),
			8..=9 => RVal::Arr(vec![]),
			_ => RVal::Obj(vec![]),
		}
	}
	fn node(rng: &mut Rng, depth: usize) -> RVal {
		if depth == 0 || rng.chance(1, 3) {
			return leaf(rng);
		}
		let n = rng.below(4);
		if rng.chance(1, 2) {
			RVal::Arr((0..n).map(|_| node(rng, depth - 1)).collect())
		} else {
			RVal::Obj(
				(0..n)
					.map(|_| {
						let k: String = match rng.below(4) {
							0 => String::new(),
							1 => "a".into(),
							2 => "k\"\u{b}".into(),
							_ => (0..rng.below(8)).map(|_| (b'a' + rng.below(26) as u8) as char).collect(),
						};
						(k, node(rng, depth - 1))
					})
					.collect(),
			)
		}
	}
	let d = 1 + rng.below(4);
	node(rng, d)
}

/// A sink that accepts at most `cap` bytes and then fails.
struct Bounded {
	buf: String,
	cap: usize,
}

impl std::fmt::Write for Bounded {
	fn write_str(&mut self, s: &str) -> std::fmt::Result {
		if self.buf.len() + s.len() > self.cap {
			Err(std::fmt::Error)
		} else {
			self.buf.push_str(s);
			Ok(())
		}
	}
}

/// Prints into a sink that fails after `cap` bytes: the call must return
/// (Ok iff everything fits), what was written must be a prefix of the real
/// output, and the failure must leave nothing behind that changes later prints.
fn print_into_failing_sink(v: &Value, ro: json_syntax::print::Options, full: &str, cap: usize) -> Result<(), String> {
	use std::fmt::Write;
	let mut sink = Bounded { buf: String::new(), cap };
	let r = guard(|| write!(sink, "{}", v.print_with(ro)))?;
	if r.is_ok() != (full.len() <= cap) {
		return Err(format!("write! into a sink of {} bytes returned {:?} for an output of {} bytes", cap, r, full.len()));
	}
	if !full.starts_with(&sink.buf) {
		return Err(format!("bytes written before the sink failed are not a prefix of the output: `{}`", show(sink.buf.as_bytes())));
	}
	Ok(())
}

// ---------------------------------------------------------------------------
// C08
// ---------------------------------------------------------------------------

fn c08_one(rep: &mut Report, fam: &str, r: &RVal) {
	rep.evaluations += 1;
	let mut want = String::new();
	pr::compact(r, &mut want);
	let v = from_rval(r);
	// ... nor on a previous print that failed half-way
	if rep.evaluations % 5 == 1 {
		let mut o = json_syntax::print::Options::pretty();
		o.array_limit = Some(json_syntax::print::Limit::Always);
		o.object_limit = Some(json_syntax::print::Limit::Always);
		let full = guard(|| v.print_with(o.clone()).to_string()).unwrap_or_default();
		if let Err(m) = print_into_failing_sink(&v, o, &full, full.len() / 2) {
			rep.violation("C08:failing-sink", format!("[{}] {}", fam, m), json!({"sub": "compact", "value_compact": want}));
		}
	}
	// compact output must not depend on what was printed before on this thread
	if rep.evaluations % 3 == 0 {
		let _ = guard(|| v.pretty_print().to_string());
		let mut o = json_syntax::print::Options::pretty();
		o.array_limit = Some(json_syntax::print::Limit::Always);
		o.object_limit = Some(json_syntax::print::Limit::Item(0));
		let _ = guard(|| v.print_with(o).to_string());
	}
	// the same content in other storage (objects filled with the front mutators, strings and keys on the
	// heap whatever their length, spare capacity): compact output is a function of the value
	if rep.evaluations % 2 == 0 || want.len() < 64 {
		let alt = crate::monitor::conv::from_rval_storage(r);
		rep.count("renderings_compared", 2);
		for (name, got) in [("compact_print().to_string() of an equal value held in other storage", guard(|| alt.compact_print().to_string())), ("to_string() of an equal value built with push", guard(|| from_rval_push(r).to_string()))] {
			match got {
				Err(p) => rep.violation("C08:panic", format!("[{}] {} panicked on {}: {}", fam, name, show(want.as_bytes()), p), json!({"sub": "compact", "value_compact": want})),
				Ok(g) if g != want => rep.violation(
					"C08:bytes-differ:other-storage",
					format!("[{}] {} = `{}`, the reference serializer gives `{}`", fam, name, show(g.as_bytes()), show(want.as_bytes())),
					json!({"sub": "compact", "value_compact": want}),
				),
				Ok(_) => (),
			}
		}
	}
	let forms: [(&str, Result<String, String>); 6] = [
		("compact_print().to_string()", guard(|| v.compact_print().to_string())),
		("to_string()", guard(|| v.to_string())),
		("format!(\"{}\")", guard(|| format!("{}", v))),
		("String::from(value)", guard(|| String::from(v.clone()))),
		// the sign flag has no meaning for a document: it must not leak into the text
		("format!(\"{:+}\")", guard(|| format!("{:+}", v))),
		("format!(\"{:+}\", compact_print())", guard(|| format!("{:+}", v.compact_print()))),
	];
	// width, fill and precision: a format specification may be ignored or applied to the rendering as a
	// whole (as `str` does), it must never reach the tokens inside the document
	if want.len() <= 200 {
		macro_rules! spec {
			($fmt:literal) => {{
				for (name, got) in [(concat!("format!(\"", $fmt, "\")"), guard(|| format!($fmt, v))), (concat!("format!(\"", $fmt, "\", compact_print())"), guard(|| format!($fmt, v.compact_print())))] {
					rep.count("renderings_compared", 1);
					let whole = format!($fmt, want.as_str());
					match got {
						Err(p) => rep.violation("C08:panic", format!("[{}] {} panicked on {}: {}", fam, name, show(want.as_bytes()), p), json!({"sub": "compact", "value_compact": want})),
						Ok(g) if g != want && g != whole => rep.violation(
							format!("C08:bytes-differ:{}", name),
							format!("[{}] {} = `{}`; expected `{}` (specification ignored) or `{}` (applied to the whole text)", fam, name, show(g.as_bytes()), show(want.as_bytes()), show(whole.as_bytes())),
							json!({"sub": "compact", "value_compact": want}),
						),
						Ok(_) => (),
					}
				}
			}};
		}
		spec!("{:8}");
		spec!("{:.3}");
		spec!("{:>12}");
		spec!("{:*^9.2}");
		spec!("{:010.1}");
		// the alternate flag: Display is a compact rendering whatever the flags
		spec!("{:#}");
		spec!("{:#12.1}");
	}
	for (name, got) in forms {
		rep.count("renderings_compared", 1);
		match got {
			Err(p) => rep.violation("C08:panic", format!("[{}] {} panicked on {}: {}", fam, name, show(want.as_bytes()), p), json!({"sub": "compact", "value_compact": want})),
			Ok(g) if g != want => rep.violation(
				format!("C08:bytes-differ:{}", name),
				format!("[{}] {} = `{}`, the reference serializer gives `{}`", fam, name, show(g.as_bytes()), show(want.as_bytes())),
				json!({"sub": "compact", "value_compact": want}),
			),
			Ok(_) => (),
		}
	}
}

const CLASS_ALPHABET: [char; 18] = [
	'a', '"', '\\', '/', '\u{8}', '\t', '\n', '\u{b}', '\u{c}', '\r', '\u{0}', '\u{1f}', '\u{10}', '\u{7f}', '\u{e9}', '\u{20ac}', '\u{2028}',
	'\u{1f600}',
];

pub fn run_c08(cfg: &Config) -> i32 {
	let started = Instant::now();
	let thorough = cfg.tier == Tier::Thorough && !cfg.san;
	let mut total = Report::new();
	if let Err(m) = selftest() {
		total.inconclusive.push(m)
	}
	// every scalar value as a one-character string and key
	let rep = parallel(cfg.threads, 17, |plane| {
		let mut rep = Report::new();
		let mut n = 0u64;
		for u in (plane as u32) * 0x10000..(plane as u32 + 1) * 0x10000 {
			if let Some(c) = char::from_u32(u) {
				let s: String = c.to_string();
				c08_one(&mut rep, "every-scalar", &RVal::Str(s.clone()));
				c08_one(&mut rep, "every-scalar", &RVal::Obj(vec![(s.clone(), RVal::Arr(vec![RVal::Str(s)]))]));
				n += 2;
			}
		}
		rep.count("scalars_swept", n / 2);
		rep.distinct_by_construction(n);
		if plane == 0 {
			rep.sample(json!({"family": "every-scalar", "value": "\"<each of the 1,112,064 scalar values>\" and {\"<c>\":[\"<c>\"]}"}));
		}
		rep
	});
	total.merge(rep);
	// every string of <= L characters over the class alphabet
	let max_len = if thorough { 5 } else { 4 };
	let k = CLASS_ALPHABET.len();
	let rep = parallel(cfg.threads, k, |first| {
		let mut rep = Report::new();
		let strs: Vec<String> = CLASS_ALPHABET.iter().map(|c| c.to_string()).collect();
		let refs: Vec<&str> = strs.iter().map(|s| s.as_str()).collect();
		let mut n = 0u64;
		for len in 1..=max_len {
			gen::for_each_seq(&refs, len, &[first], &mut |b, _| {
				let s = std::str::from_utf8(b).unwrap().to_string();
				c08_one(&mut rep, "class-strings", &RVal::Arr(vec![RVal::Str(s.clone()), RVal::Obj(vec![(s, RVal::Null)])]));
				n += 1;
			});
		}
		rep.count("class_strings_swept", n);
		rep.distinct_by_construction(n);
		rep
	});
	total.merge(rep);
	// runs of 1..40 copies of one character of each class (all of them needing the long escape, the short
	// escape, no escape, 2-4 bytes), as value and as key
	{
		let rep = parallel(cfg.threads, CLASS_ALPHABET.len(), |ci| {
			let mut rep = Report::new();
			let c = CLASS_ALPHABET[ci];
			for k in 1..=40usize {
				let s: String = std::iter::repeat(c).take(k).collect();
				c08_one(&mut rep, "runs-of-one-character", &RVal::Arr(vec![RVal::Str(s.clone()), RVal::Obj(vec![(s, RVal::Null)])]));
			}
			rep.distinct_by_construction(40);
			rep
		});
		total.merge(rep);
	}
	// long strings: an escape / multi-byte character at every offset up to the bound, and long plain runs after an escape
	let max_long = if thorough { 2100 } else { 1100 };
	let rep = parallel(cfg.threads, 16, |sh| {
		let mut rep = Report::new();
		let mut n = 0u64;
		let specials: [&str; 6] = ["\u{1}", "\"", "\n", "\u{e9}", "\u{1f600}", "\u{1f}\u{0}"];
		let mut l = sh;
		while l <= max_long {
			// plain strings and keys of exactly this length (printable ASCII only; with one space; digits)
			for s in ["a".repeat(l), format!("{} ", "k".repeat(l)), "7".repeat(l)] {
				c08_one(&mut rep, "long-strings", &RVal::Obj(vec![(s.clone(), RVal::Str(s.clone())), (s, RVal::Arr(vec![]))]));
				n += 1;
			}
			for sp in specials {
				let head: String = "a".repeat(l);
				for s in [format!("{}{}b", head, sp), format!("{}{}", sp, head), format!("x{}{}{}", sp, head, sp)] {
					c08_one(&mut rep, "long-strings", &RVal::Arr(vec![RVal::Str(s.clone()), RVal::Obj(vec![(s, RVal::Num("1".into()))])]));
					n += 1;
				}
			}
			l += 16;
		}
		rep.count("long_strings_swept", n);
		rep.max("longest_string_chars", max_long as u64);
		rep.distinct_by_construction(n);
		rep
	});
	total.merge(rep);
	// values nested 130..300 levels with several members at every level (and at the bottom)
	{
		let rep = parallel(cfg.threads, 8, |i| {
			let mut rep = Report::new();
			for depth in [129usize, 130, 200, 257, 300] {
				let mut r = RVal::Arr(vec![RVal::Num("1".into()), RVal::Str("two".into()), RVal::Obj(vec![("a".into(), RVal::Null), ("b".into(), RVal::Bool(true))])]);
				for d in 0..depth {
					r = match (d + i) % 4 {
						0 => RVal::Arr(vec![RVal::Num(d.to_string()), r, RVal::Bool(false)]),
						1 => RVal::Obj(vec![("p".into(), RVal::Num(d.to_string())), ("q".into(), r), ("r".into(), RVal::Null)]),
						2 => RVal::Arr(vec![r]),
						_ => RVal::Obj(vec![("k".into(), r), ("k".into(), RVal::Str("dup".into()))]),
					};
				}
				c08_one(&mut rep, "deep-values", &r);
				rep.distinct_by_construction(1);
				rep.max("deepest_compact_printed_nesting", depth as u64);
				crate::oracle::rfc8259::drop_iter(r);
			}
			rep
		});
		total.merge(rep);
	}
	// values wider than 65,535 printed characters
	{
		let mut rep = Report::new();
		for r in [
			RVal::Arr((0..40_000).map(|j| RVal::Num((j % 10).to_string())).collect()),
			RVal::Arr(vec![RVal::Str("s".repeat(70_000)), RVal::Null]),
			RVal::Obj((0..9_000).map(|j| (format!("key{}", j), RVal::Bool(j % 2 == 0))).collect()),
			RVal::Arr((0..70).map(|_| RVal::Arr((0..1000).map(|j| RVal::Num(j.to_string())).collect())).collect()),
			RVal::Arr(vec![RVal::Obj(vec![("\u{e9}".repeat(66_000), RVal::Arr(vec![]))])]),
			// numbers written in one piece: 4095, 4096, 5000 and 70,000 digits, after something else
			RVal::Arr(vec![RVal::Null, RVal::Num("7".repeat(4095)), RVal::Num(format!("-{}.5e-3", "8".repeat(4096))), RVal::Obj(vec![("n".into(), RVal::Num("9".repeat(5000))), ("m".into(), RVal::Num(format!("1{}", "0".repeat(70_000))))])]),
		] {
			c08_one(&mut rep, "wide-values", &r);
			rep.distinct_by_construction(1);
		}
		rep.count("wide_values", 6);
		total.merge(rep);
	}
	// generated nested values
	let n = cfg.budget(1_000_000, 20_000_000);
	let shards = 64;
	let seed = cfg.seed;
	let rep = parallel(cfg.threads, shards, |i| {
		let mut rep = Report::new();
		let mut rng = Rng::new(seed).fork(0xc08 + i as u64);
		for k in 0..(n / shards as u64).max(1) {
			let v = gen_print_value(&mut rng);
			rep.distinct_hash(fnv(doc_of(&v).as_bytes()));
			c08_one(&mut rep, "generated", &v);
			if i == 0 && k < 2 {
				rep.sample(json!({"family": "generated", "value_compact": show(doc_of(&v).as_bytes())}));
			}
		}
		rep
	});
	total.merge(rep);
	conclude(
		cfg,
		EvidenceMeta {
			id: "C08",
			rule: "compact_print, to_string, format! and String::from are compared byte for byte with the reference serializer on: every Unicode scalar value as a one-character string and as a one-character key (complete sweep), every string of up to 4 (thorough 5) characters over an 18-character class alphabet (quote, backslash, slash, each short escape, other controls, DEL, 2/3/4-byte characters, U+2028) as string and key, and generated nested values; non-trivial = every case (each prints at least one string or container); sweeps distinct by construction, generated by hash",
			exhaustive: false,
			assumptions: vec!["the reference serializer is RFC 8785 section 3.2.2 verbatim (harness/src/oracle/print.rs), numbers are printed verbatim".into()],
			extra: json!({"scalar_sweep_complete": true}),
		},
		total,
		started,
		if cfg.san { 100_000 } else { 1_000_000 },
	)
	.exit
}

// ---------------------------------------------------------------------------
// C04 and C13
// ---------------------------------------------------------------------------

struct PrintMon {
	rep: Report,
	reader: Reader,
	c04: bool,
	c13: bool,
}

impl PrintMon {
	fn one(&mut self, fam: &str, r: &RVal, v: &Value, o: &POpts) {
		self.rep.evaluations += 1;
		if self.rep.evaluations % 7 == 3 {
			// a print that fails half-way (bounded sink) must not influence the next one
			// ... printed with *other* options than the print under test, so that anything left behind would matter
			let mut alt = *o;
			if alt.array_limit.is_none() && alt.object_limit.is_none() {
				alt.array_limit = Some(PLimit::Always);
				alt.object_limit = Some(PLimit::Item(0));
			} else {
				alt.array_limit = None;
				alt.object_limit = None;
			}
			if let Ok(full) = print_real(v, &alt) {
				let cap = (full.len() * (self.rep.evaluations as usize % 5)) / 5;
				if let Err(m) = print_into_failing_sink(v, alt.to_real(), &full, cap) {
					let id = if self.c04 { "C04" } else { "C13" };
					self.rep.violation(format!("{}:failing-sink", id), format!("[{}] {} (value {}, options {})", fam, m, show(doc_of(r).as_bytes()), opts_json(o)), case_json("print", r, o));
				}
				self.rep.count("prints_into_failing_sinks", 1);
			}
		}
		let text = match print_real(v, o) {
			Ok(t) => t,
			Err(p) => {
				let id = if self.c04 { "C04" } else { "C13" };
				self.rep.violation(format!("{}:panic", id), format!("[{}] print_with panicked: {} (value {}, options {})", fam, p, show(doc_of(r).as_bytes()), opts_json(o)), case_json("print", r, o));
				return;
			}
		};
		if self.c04 {
			// 1. valid strict RFC 8259 according to the reference recognizer
			let rd = self.reader.read(text.as_bytes(), false);
			if !rd.accepts(Opts::STRICT) {
				self.rep.violation(
					"C04:output-not-json",
					format!("[{}] printed text is not a strict RFC 8259 document (stops at {:?}): `{}` (options {})", fam, rd.stop, show(text.as_bytes()), opts_json(o)),
					case_json("print", r, o),
				);
				return;
			}
			// 2. parses back to an equal value
			match guard(|| Value::parse_str(&text)) {
				Ok(Ok((back, _))) => {
					if back != *v {
						self.rep.violation(
							"C04:round-trip-differs",
							format!("[{}] `{}` parses back to {:?}, original {:?} (options {})", fam, show(text.as_bytes()), trunc(&to_rval(&back)), trunc(r), opts_json(o)),
							case_json("print", r, o),
						);
					}
				}
				Ok(Err(e)) => self.rep.violation(
					"C04:reparse-fails",
					format!("[{}] the crate's parser rejects its own output `{}`: {:?} (options {})", fam, show(text.as_bytes()), e, opts_json(o)),
					case_json("print", r, o),
				),
				Err(p) => self.rep.violation("C04:panic", format!("[{}] parse_str panicked on printed text: {}", fam, p), case_json("print", r, o)),
			}
			// ... through the byte-slice entry point as well
			match guard(|| Value::parse_slice(text.as_bytes())) {
				Ok(Ok((back, _))) => {
					if back != *v {
						self.rep.violation(
							"C04:round-trip-differs:parse_slice",
							format!("[{}] `{}` parses back (parse_slice) to {:?}, original {:?} (options {})", fam, show(text.as_bytes()), trunc(&to_rval(&back)), trunc(r), opts_json(o)),
							case_json("print", r, o),
						);
					}
				}
				Ok(Err(e)) => self.rep.violation(
					"C04:reparse-fails:parse_slice",
					format!("[{}] parse_slice rejects the printed text `{}`: {:?} (options {})", fam, show(text.as_bytes()), e, opts_json(o)),
					case_json("print", r, o),
				),
				Err(p) => self.rep.violation("C04:panic", format!("[{}] parse_slice panicked on printed text: {}", fam, p), case_json("print", r, o)),
			}
			// 3. options change insignificant whitespace only
			let mut want = String::new();
			pr::compact(r, &mut want);
			if pr::strip_insignificant(&text) != want {
				self.rep.violation(
					"C04:significant-change",
					format!("[{}] stripping whitespace outside strings from `{}` does not give the compact form `{}` (options {})", fam, show(text.as_bytes()), show(want.as_bytes()), opts_json(o)),
					case_json("print", r, o),
				);
			}
			self.rep.count("round_trips", 1);
		}
		if self.c13 {
			let mut want = String::new();
			pr::layout(r, o, 0, &mut want);
			self.rep.count("layouts_compared", 1);
			if want.contains('\n') {
				self.rep.count("layouts_with_expanded_containers", 1);
			}
			// the value embedded at a deeper level through the public `fmt_with`, and printed through the
			// forwarding impls (&T, Meta, Stripped)
			if self.rep.evaluations % 3 == 0 || want.len() < 40 {
				for depth in [1usize, 4] {
					let ro = o.to_real();
					let mut want_d = String::new();
					pr::layout(r, o, depth, &mut want_d);
					let forms: [(&str, Result<String, String>); 3] = [
						("Value::fmt_with", guard(|| AtDepth(v, ro.clone(), depth).to_string())),
						("<&Value>::fmt_with", guard(|| AtDepth(&v, ro.clone(), depth).to_string())),
						("Meta<Value, M>::fmt_with", guard(|| AtDepth(&locspan::Meta(v.clone(), 0u8), ro.clone(), depth).to_string())),
					];
					for (what, got) in forms {
						self.rep.count("layouts_compared_at_a_base_depth", 1);
						if got.as_deref() != Ok(want_d.as_str()) {
							self.rep.violation(
								"C13:layout-differs:fmt_with",
								format!("[{}] value {} under {} through {} at depth {}: printed {:?}, documented layout `{}`", fam, show(doc_of(r).as_bytes()), opts_json(o), what, depth, got.map(|g| show(g.as_bytes())), show(want_d.as_bytes())),
								case_json("print", r, o),
							);
							break;
						}
					}
				}
				// the same content held by a user-defined container that prints itself through the
				// public generic helpers
				if matches!(r, RVal::Arr(_) | RVal::Obj(_)) {
					let ro = o.to_real();
					let got = guard(|| User::of(r, 0).print_with(ro).to_string());
					self.rep.count("layouts_compared_through_a_user_container", 1);
					if got.as_deref() != Ok(want.as_str()) {
						self.rep.violation(
							"C13:layout-differs:user-container",
							format!("[{}] content {} under {} held by a user container printed with pre_compute_array_size / print_array / ...: printed {:?}, documented layout `{}`", fam, show(doc_of(r).as_bytes()), opts_json(o), got.map(|g| show(g.as_bytes())), show(want.as_bytes())),
							case_json("print", r, o),
						);
					}
				}
				let ro = o.to_real();
				let via_ref = guard(|| (&v).print_with(ro.clone()).to_string());
				let via_meta = guard(|| locspan::Meta(v.clone(), ()).print_with(ro.clone()).to_string());
				let via_stripped = guard(|| locspan::Stripped(v.clone()).print_with(ro.clone()).to_string());
				if via_ref.as_deref() != Ok(want.as_str()) || via_meta.as_deref() != Ok(want.as_str()) || via_stripped.as_deref() != Ok(want.as_str()) {
					self.rep.violation(
						"C13:layout-differs:forwarding-impl",
						format!("[{}] value {} under {}: &Value prints {:?}, Meta {:?}, Stripped {:?}; documented layout `{}`", fam, show(doc_of(r).as_bytes()), opts_json(o), via_ref, via_meta, via_stripped, show(want.as_bytes())),
						case_json("print", r, o),
					);
				}
			}
			// a format specification on the placeholder is ignored or applied to the rendering as a whole
			if self.rep.evaluations % 4 == 1 && want.len() <= 300 {
				let ro = o.to_real();
				macro_rules! spec {
					($fmt:literal) => {{
						let got = guard(|| format!($fmt, v.print_with(ro.clone())));
						let whole = format!($fmt, want.as_str());
						self.rep.count("layouts_compared_under_a_format_specification", 1);
						match got {
							Ok(g) if g == want || g == whole => (),
							other => self.rep.violation(
								"C13:layout-differs:format-specification",
								format!("[{}] value {} under {} printed with `{}`: {:?}; expected the documented layout `{}` (specification ignored) or that text padded / truncated as a whole", fam, show(doc_of(r).as_bytes()), opts_json(o), $fmt, other.map(|g| show(g.as_bytes())), show(want.as_bytes())),
								case_json("print", r, o),
							),
						}
					}};
				}
				spec!("{:9}");
				spec!("{:.2}");
				spec!("{:>7.3}");
				spec!("{:+}");
				spec!("{:#}");
			}
			if text != want {
				self.rep.violation(
					"C13:layout-differs",
					format!("[{}] value {} under {}: printed `{}`, documented layout `{}`", fam, show(doc_of(r).as_bytes()), opts_json(o), show(text.as_bytes()), show(want.as_bytes())),
					case_json("print", r, o),
				);
			}
		}
	}
}

fn trunc(v: &RVal) -> String {
	let s = format!("{:?}", v);
	s.chars().take(240).collect()
}

fn random_record(rng: &mut Rng, r: &RVal) -> POpts {
	let mut o = match rng.below(6) {
		0 => POpts::pretty(),
		1 => POpts::inline(),
		2 => POpts::compact(),
		_ => pr::gen_opts(rng),
	};
	if rng.chance(4, 5) {
		let mut widths = Vec::new();
		let mut probe = o;
		probe.array_limit = None;
		probe.object_limit = None;
		pr::one_line(r, &probe, &mut widths);
		o.array_limit = pr::gen_limit(rng, &widths, false);
		o.object_limit = pr::gen_limit(rng, &widths, true);
		o.indent = pr::gen_indent(rng);
	}
	o
}

/// One case of the family "values through the serde number token": `Deserialize for Value` is handed
/// the number token map with the string `tok` by a foreign deserializer; whatever value comes out
/// must print as a valid document that parses back to it.
fn number_token_case(rep: &mut Report, rd: &mut Reader, tok: &str, nested: bool) {
	use serde::Deserialize;
	rep.evaluations += 1;
	rep.distinct_by_construction(1);
	let got = guard(|| {
		let inner = serde::de::value::MapDeserializer::<_, serde::de::value::Error>::new(std::iter::once(("$serde_json::private::Number", tok)));
		if nested {
			Value::deserialize(serde::de::value::SeqDeserializer::<_, serde::de::value::Error>::new(std::iter::once(inner)))
		} else {
			Value::deserialize(inner)
		}
	});
	let v = match got {
		Ok(Ok(v)) => v,
		Ok(Err(_)) => {
			rep.count("number_token_strings_refused", 1);
			return;
		}
		Err(p) => {
			rep.violation("C04:panic", format!("[values-through-the-serde-number-token] deserializing the token map with {:?} panicked: {}", tok, p), json!({"sub": "number-token", "token": tok, "nested": nested}));
			return;
		}
	};
	rep.count("number_token_strings_accepted", 1);
	for (what, text) in [("compact", guard(|| v.compact_print().to_string())), ("pretty", guard(|| v.pretty_print().to_string()))] {
		let ok = match &text {
			Ok(t) => rd.read(t.as_bytes(), false).accepts(Opts::STRICT) && matches!(guard(|| Value::parse_str(t).map(|x| x.0)), Ok(Ok(back)) if back == v),
			Err(_) => false,
		};
		if !ok {
			rep.violation(
				"C04:invalid-output:value-from-deserialize",
				format!("[values-through-the-serde-number-token] the value {:?} obtained by deserializing the number token map with {:?} prints ({}) as {:?}, which is not a valid document that parses back to it", v, tok, what, text),
				json!({"sub": "number-token", "token": tok, "nested": nested}),
			);
			return;
		}
	}
}

fn run_print(cfg: &Config, id: &'static str) -> i32 {
	let started = Instant::now();
	let c04 = id == "C04";
	let mut total = Report::new();
	if let Err(m) = selftest() {
		total.inconclusive.push(m)
	}
	let seed = cfg.seed;
	let shards = 64usize;

	// (a) presets and the exhaustive pairwise cover of the numeric fields, on a few values each
	let mut records: Vec<POpts> = Vec::new();
	for base in [POpts::pretty(), POpts::inline(), POpts::compact()] {
		records.extend(pr::pairwise_records(&base));
	}
	// a base with limits that make both forms appear
	let mut b = POpts::pretty();
	b.array_limit = Some(PLimit::Width(12));
	b.object_limit = Some(PLimit::Item(2));
	b.indent = PIndent::Tabs(1);
	records.extend(pr::pairwise_records(&b));
	let n_records = records.len();
	let records = std::sync::Arc::new(records);
	let r2 = records.clone();
	let per_record = if cfg.san { 1 } else if cfg.tier == Tier::Thorough { 40 } else { 8 };
	let rep = parallel(cfg.threads, shards, move |i| {
		let mut mon = PrintMon {
			rep: Report::new(),
			reader: Reader::new(),
			c04,
			c13: !c04,
		};
		let mut rng = Rng::new(seed).fork(0x9a1 + i as u64);
		let mut k = i;
		while k < r2.len() {
			for _ in 0..per_record {
				let r = if rng.chance(1, 2) { gen_layout_value(&mut rng) } else { gen_print_value(&mut rng) };
				let v = from_rval(&r);
				mon.one("pairwise-option-cover", &r, &v, &r2[k]);
				mon.rep.distinct_hash(fnv(format!("{}|{:?}", doc_of(&r), r2[k]).as_bytes()));
			}
			k += shards;
		}
		mon.rep.count("family:pairwise-option-cover", mon.rep.evaluations);
		mon.rep
	});
	total.merge(rep);
	total.count("option_records_in_pairwise_cover", n_records as u64);

	// (b) random (value, record) pairs with thresholds straddling the actual widths
	let n = cfg.budget(2_000_000, 40_000_000);
	let rep = parallel(cfg.threads, shards, |i| {
		let mut mon = PrintMon {
			rep: Report::new(),
			reader: Reader::new(),
			c04,
			c13: !c04,
		};
		let mut rng = Rng::new(seed).fork(0x9a2 + i as u64);
		for k in 0..(n / shards as u64).max(1) {
			let r = if rng.chance(1, 2) { gen_layout_value(&mut rng) } else { gen_print_value(&mut rng) };
			let v = if rng.chance(1, 4) { from_rval_push(&r) } else { from_rval(&r) };
			let o = random_record(&mut rng, &r);
			mon.one("random-pairs", &r, &v, &o);
			mon.rep.distinct_hash(fnv(format!("{}|{:?}", doc_of(&r), o).as_bytes()));
			if i == 0 && k < 2 {
				mon.rep.sample(json!({"family": "random-pairs", "value_compact": show(doc_of(&r).as_bytes()), "options": opts_json(&o)}));
			}
		}
		mon.rep.count("family:random-pairs", mon.rep.evaluations);
		mon.rep
	});
	total.merge(rep);

	// (d) long strings (escape at every offset), deep nesting with every indent unit, large spacing values
	let rep = parallel(cfg.threads, 16, |sh| {
		let mut mon = PrintMon {
			rep: Report::new(),
			reader: Reader::new(),
			c04,
			c13: !c04,
		};
		let mut rng = Rng::new(seed).fork(0x9a4 + sh as u64);
		// long strings
		let mut l = sh;
		while l <= 2200 {
			// strings made of one kind of character only (1, 2, 3 and 4 bytes each), widths straddled by the limits
			if l >= 1 && l <= 130 {
				for ch in ["a", "\u{e9}", "\u{20ac}", "\u{1f600}"] {
					let s = ch.repeat(l);
					for r in [
						RVal::Arr(vec![RVal::Str(s.clone()), RVal::Obj(vec![(s.clone(), RVal::Str(s.clone()))])]),
						// a container whose only content is that string: its width is the string's plus a constant
						RVal::Arr(vec![RVal::Str(s.clone())]),
						RVal::Obj(vec![("k".into(), RVal::Str(s.clone()))]),
					] {
						let v = from_rval(&r);
						for _ in 0..3 {
							let mut o = random_record(&mut rng, &r);
							// both limits width-based half of the time (a limit of the other kind hides width mistakes)
							if rng.chance(1, 2) {
								let mut widths = Vec::new();
								let mut probe = o;
								probe.array_limit = None;
								probe.object_limit = None;
								pr::one_line(&r, &probe, &mut widths);
								let w = widths.iter().map(|x| x.2).max().unwrap_or(10);
								let pick = |rng: &mut Rng| (w + rng.below(5)).saturating_sub(2);
								o.array_limit = Some(PLimit::Width(pick(&mut rng)));
								o.object_limit = Some(if rng.chance(1, 2) { PLimit::Width(pick(&mut rng)) } else { PLimit::ItemOrWidth(1 + rng.below(3), pick(&mut rng)) });
							}
							mon.one("long-strings", &r, &v, &o);
							mon.rep.distinct_by_construction(1);
						}
					}
				}
			}
			// plain keys and strings of exactly this length, numbers with digit runs of this length
			if l <= 700 {
				let digits: String = (0..l.max(1)).map(|k| char::from(b'1' + ((k * 7 + l) % 9) as u8)).collect();
				let r = RVal::Obj(vec![
					("k".repeat(l), RVal::Str("v".repeat(l))),
					("n".into(), RVal::Arr(vec![RVal::Num(digits.clone()), RVal::Num(format!("-0.{}e-{}", digits, digits)), RVal::Num(format!("{}.{}E+{}", digits, "0".repeat(l.max(1)), digits))])),
				]);
				let v = from_rval(&r);
				for o in [POpts::pretty(), POpts::compact(), random_record(&mut rng, &r)] {
					mon.one("long-strings", &r, &v, &o);
					mon.rep.distinct_by_construction(1);
				}
			}
			for sp in ["\u{1}", "\"", "\u{e9}", "\u{1f600}"] {
				let s = format!("{}{}{}", "a".repeat(l), sp, "b".repeat(l % 7));
				let r = RVal::Obj(vec![(s.clone(), RVal::Arr(vec![RVal::Str(s), RVal::Null]))]);
				let v = from_rval(&r);
				for o in [POpts::pretty(), POpts::compact(), random_record(&mut rng, &r)] {
					mon.one("long-strings", &r, &v, &o);
					mon.rep.distinct_by_construction(1);
				}
			}
			l += 16;
		}
		// deep nesting: depth up to 80, expanded at every level
		for depth in (sh + 1..=80).step_by(16) {
			let mut r = if depth % 2 == 0 { RVal::Num("1".into()) } else { RVal::Arr(vec![]) };
			for d in 0..depth {
				r = if (d + sh) % 3 == 0 { RVal::Obj(vec![("k".into(), r), ("l".into(), RVal::Null)]) } else { RVal::Arr(vec![RVal::Bool(true), r]) };
			}
			let v = from_rval(&r);
			for indent in [PIndent::Tabs(1), PIndent::Tabs(2), PIndent::Spaces(1), PIndent::Spaces(4), PIndent::Spaces(0)] {
				for lim in [Some(PLimit::Always), Some(PLimit::Item(0)), Some(PLimit::Width(3)), None] {
					let mut o = POpts::pretty();
					o.indent = indent;
					o.array_limit = lim;
					o.object_limit = lim;
					mon.one("deep-nesting", &r, &v, &o);
					mon.rep.distinct_by_construction(1);
				}
			}
			mon.rep.max("deepest_printed_nesting", depth as u64);
		}
		// values wider than 65,535 printed characters (arrays of many items, a long string inside a container, objects of many entries)
		if sh < 7 {
			let r = match sh {
				0 => RVal::Arr((0..40_000).map(|j| RVal::Num((j % 10).to_string())).collect()),
				1 => RVal::Arr(vec![RVal::Str("s".repeat(70_000)), RVal::Null]),
				2 => RVal::Obj((0..9_000).map(|j| (format!("key{}", j), RVal::Bool(j % 2 == 0))).collect()),
				3 => RVal::Obj(vec![("wide".into(), RVal::Arr((0..33_000).map(|_| RVal::Null).collect())), ("k".into(), RVal::Num("1".into()))]),
				4 => RVal::Arr((0..70).map(|_| RVal::Arr((0..1000).map(|j| RVal::Num(j.to_string())).collect())).collect()),
				5 => RVal::Arr(vec![RVal::Null, RVal::Num("7".repeat(4095)), RVal::Num(format!("-{}.5e-3", "8".repeat(4096))), RVal::Obj(vec![("n".into(), RVal::Num("9".repeat(5000))), ("m".into(), RVal::Num(format!("1{}", "0".repeat(70_000))))])]),
				_ => RVal::Arr(vec![RVal::Obj(vec![("\u{e9}".repeat(66_000), RVal::Arr(vec![]))])]),
			};
			let v = from_rval(&r);
			let mut wide_limit = POpts::pretty();
			wide_limit.array_limit = Some(PLimit::Width(1 << 20));
			wide_limit.object_limit = Some(PLimit::ItemOrWidth(1 << 20, 1 << 20));
			for o in [POpts::compact(), POpts::inline(), wide_limit, POpts::pretty()] {
				mon.one("wide-values", &r, &v, &o);
				mon.rep.distinct_by_construction(1);
			}
			mon.rep.max("widest_printed_value_chars", doc_of(&r).chars().count() as u64);
		}
		// multi-line documents of every size class up to a few dozen KiB: runs of line break + indentation
		// then fall on every offset relative to any power-of-two window a reader may use
		{
			let mut n = sh + 1;
			while n <= 900 {
				let row = |j: usize| RVal::Arr(vec![RVal::Num(j.to_string()), RVal::Str("x".repeat(j % 11))]);
				let r = RVal::Obj(vec![("rows".into(), RVal::Arr((0..n).map(row).collect())), ("n".into(), RVal::Num(n.to_string()))]);
				let v = from_rval(&r);
				let mut o = POpts::pretty();
				o.indent = [PIndent::Spaces(2), PIndent::Spaces(7), PIndent::Tabs(1), PIndent::Spaces(4)][n % 4];
				if n % 3 == 0 {
					o.array_limit = Some(PLimit::Item(0));
				}
				mon.one("sized-multi-line-documents", &r, &v, &o);
				mon.rep.distinct_by_construction(1);
				n += 16;
			}
		}
		// nesting of a thousand levels and more (printed and re-read in a thread with a roomy stack:
		// printing is recursive, only parsing and traversal promise otherwise)
		if sh >= 10 && sh < 14 {
			let depth = [1000usize, 1030, 1500, 2000][sh - 10];
			let c04 = mon.c04;
			let h = std::thread::Builder::new().stack_size(1 << 28).spawn(move || {
				let mut m2 = PrintMon {
					rep: Report::new(),
					reader: Reader::new(),
					c04,
					c13: !c04,
				};
				let mut r = RVal::Arr(vec![RVal::Num("1".into()), RVal::Str("x".into())]);
				for d in 0..depth {
					r = if d % 3 == 0 { RVal::Obj(vec![("k".into(), r)]) } else { RVal::Arr(vec![r]) };
				}
				let v = from_rval(&r);
				let mut o = POpts::pretty();
				o.indent = PIndent::Spaces(1);
				o.array_limit = Some(PLimit::Item(0));
				o.object_limit = Some(PLimit::Item(0));
				for o in [POpts::compact(), o] {
					m2.one("very-deep-nesting", &r, &v, &o);
					m2.rep.distinct_by_construction(1);
				}
				m2.rep.max("deepest_printed_nesting", depth as u64);
				crate::oracle::rfc8259::drop_iter(r);
				crate::monitor::conv::drop_value_iter(v);
				m2.rep
			});
			match h.ok().and_then(|h| h.join().ok()) {
				Some(r) => mon.rep.merge(r),
				None => mon.rep.inconclusive.push("very deep printing thread died (harness stack?)".into()),
			}
		}
		// indentation beyond 65,535 characters on a line: large unit x deep nesting
		if sh >= 6 && sh < 10 {
			let depth = [258usize, 260, 300, 270][sh - 6];
			let mut r = RVal::Num("1".into());
			for d in 0..depth {
				r = if (d + sh) % 2 == 0 { RVal::Arr(vec![r]) } else { RVal::Obj(vec![("k".into(), r)]) };
			}
			let v = from_rval(&r);
			for indent in [PIndent::Spaces(255), PIndent::Tabs(255), PIndent::Spaces(250)] {
				let mut o = POpts::pretty();
				o.indent = indent;
				o.array_limit = Some(PLimit::Always);
				o.object_limit = Some(PLimit::Always);
				mon.one("huge-indentation", &r, &v, &o);
				mon.rep.distinct_by_construction(1);
			}
			mon.rep.max("largest_indentation_chars", (depth * 255) as u64);
		}
		// limits at the ends of their range
		for (li, lim) in [PLimit::Item(usize::MAX), PLimit::ItemOrWidth(usize::MAX, 12), PLimit::ItemOrWidth(2, usize::MAX), PLimit::Width(usize::MAX), PLimit::ItemOrWidth(usize::MAX, usize::MAX), PLimit::Item(usize::MAX - 1), PLimit::Width(0), PLimit::ItemOrWidth(0, 0)].into_iter().enumerate() {
			for _ in 0..3 {
				let r = gen_layout_value(&mut rng);
				let v = from_rval(&r);
				let mut o = if (li + sh) % 2 == 0 { POpts::pretty() } else { pr::gen_opts(&mut rng) };
				o.array_limit = Some(lim);
				o.object_limit = if sh % 3 == 0 { None } else { Some(lim) };
				mon.one("extreme-limits", &r, &v, &o);
				mon.rep.distinct_by_construction(1);
			}
		}
		// a value printed by a caller that is itself very deep (`fmt_with` at a large base depth)
		if sh < 12 {
			let depth = [1000usize, 16_383, 16_384, 21_845, 21_846, 32_767, 32_768, 33_000, 65_535, 65_536, 70_000, 131_072][sh];
			for (ri, doc) in ["[1]", "{\"a\":[]}", "[[1,2],{\"k\":null}]", "7"].iter().enumerate() {
				let r = mon.reader.read(doc.as_bytes(), true).root.unwrap();
				let v = from_rval(&r);
				for indent in [PIndent::Spaces(1), PIndent::Spaces(2), PIndent::Spaces(4), PIndent::Tabs(1), PIndent::Tabs(2)] {
					let mut o = POpts::pretty();
					o.indent = indent;
					if ri % 2 == 0 {
						o.array_limit = Some(PLimit::Always);
						o.object_limit = Some(PLimit::Always);
					}
					let ro = o.to_real();
					let mut want = String::new();
					pr::layout(&r, &o, depth, &mut want);
					let got = guard(|| AtDepth(&v, ro, depth).to_string());
					mon.rep.evaluations += 1;
					mon.rep.distinct_by_construction(1);
					mon.rep.count("layouts_compared_at_a_base_depth", 1);
					mon.rep.max("largest_base_depth", depth as u64);
					if got.as_deref() != Ok(want.as_str()) {
						let brief = |t: &str| format!("{} chars, {} lines, ends `{}`", t.chars().count(), t.lines().count(), show(t[t.len().saturating_sub(12)..].as_bytes()));
						mon.rep.violation(
							if mon.c04 { "C04:panic-or-differs:fmt_with" } else { "C13:layout-differs:fmt_with" },
							format!("[deep-base-indentation] value {} under {} through fmt_with at depth {}: printed {:?}, documented layout: {}", doc, opts_json(&o), depth, got.map(|g| brief(&g)), brief(&want)),
							json!({"sub": "base-depth", "value_compact": doc, "options": opts_json(&o), "depth": depth}),
						);
					}
				}
			}
		}
		// large spacing values in every field, one at a time and together
		for big in [31usize, 32, 33, 64, 100, 255, 256] {
			for f in 0..pr::N_FIELDS {
				let r = gen_layout_value(&mut rng);
				let v = from_rval(&r);
				let mut o = if f % 2 == 0 { POpts::pretty() } else { POpts::inline() };
				*o.field_mut(f) = big;
				if sh % 2 == 0 {
					o.array_limit = Some(PLimit::Width(big + rng.below(40)));
					o.object_limit = Some(PLimit::ItemOrWidth(3, big + rng.below(40)));
				}
				mon.one("large-spacing", &r, &v, &o);
				mon.rep.distinct_by_construction(1);
			}
		}
		mon.rep.count("family:long-strings/deep-nesting/large-spacing", mon.rep.evaluations);
		mon.rep
	});
	total.merge(rep);

	// (c) the three presets through their dedicated methods
	let n = cfg.budget(200_000, 4_000_000);
	let rep = parallel(cfg.threads, shards, |i| {
		let mut rep = Report::new();
		let mut rng = Rng::new(seed).fork(0x9a3 + i as u64);
		let mut rd = Reader::new();
		for _ in 0..(n / shards as u64).max(1) {
			let r = if rng.chance(1, 2) { gen_layout_value(&mut rng) } else { gen_print_value(&mut rng) };
			let v = from_rval(&r);
			rep.evaluations += 1;
			rep.distinct_hash(fnv(doc_of(&r).as_bytes()) ^ 0x77);
			let forms: [(&str, POpts, Result<String, String>); 3] = [
				("pretty_print", POpts::pretty(), guard(|| v.pretty_print().to_string())),
				("inline_print", POpts::inline(), guard(|| v.inline_print().to_string())),
				("compact_print", POpts::compact(), guard(|| v.compact_print().to_string())),
			];
			for (name, o, got) in forms {
				let got = match got {
					Ok(g) => g,
					Err(p) => {
						rep.violation(format!("{}:panic", id), format!("{} panicked: {}", name, p), case_json("print", &r, &o));
						continue;
					}
				};
				if c04 {
					if !rd.read(got.as_bytes(), false).accepts(Opts::STRICT) || guard(|| Value::parse_str(&got).map(|x| x.0)).ok().and_then(|x| x.ok()).as_ref() != Some(&v) {
						rep.violation(format!("C04:preset:{}", name), format!("{} output `{}` does not parse back to the value", name, show(got.as_bytes())), case_json("print", &r, &o));
					}
				} else {
					let mut want = String::new();
					pr::layout(&r, &o, 0, &mut want);
					if got != want {
						rep.violation(format!("C13:preset:{}", name), format!("{} printed `{}`, documented layout `{}`", name, show(got.as_bytes()), show(want.as_bytes())), case_json("print", &r, &o));
					}
					if name != "pretty_print" && got.contains('\n') {
						rep.violation(format!("C13:preset-linebreak:{}", name), format!("{} emitted a line break: `{}`", name, show(got.as_bytes())), case_json("print", &r, &o));
					}
				}
			}
		}
		rep.count("family:presets", rep.evaluations);
		rep
	});
	total.merge(rep);

	// every Unicode scalar value, 64 consecutive ones per string, as a string and as a key
	if c04 && !cfg.san {
		let rep = parallel(cfg.threads, 64, |sh| {
			let mut mon = PrintMon {
				rep: Report::new(),
				reader: Reader::new(),
				c04: true,
				c13: false,
			};
			let mut block = sh as u32;
			while block * 64 < 0x110000 {
				let s: String = (block * 64..block * 64 + 64).filter_map(char::from_u32).collect();
				if !s.is_empty() {
					let r = if block % 2 == 0 { RVal::Arr(vec![RVal::Str(s)]) } else { RVal::Obj(vec![(s, RVal::Null)]) };
					let v = from_rval(&r);
					mon.one("every-scalar-value-in-blocks-of-64", &r, &v, &(if block % 3 == 0 { POpts::pretty() } else { POpts::compact() }));
					mon.rep.distinct_by_construction(1);
				}
				block += 64;
			}
			mon.rep.count("family:every-scalar-value-in-blocks-of-64", mon.rep.evaluations);
			mon.rep
		});
		total.merge(rep);
	}

	// values obtained through `Deserialize for Value` from a foreign deserializer that hands over the
	// number token map with an arbitrary string: whatever value comes out must print as valid JSON
	if c04 {
		use serde::Deserialize;
		let mut rep = Report::new();
		let mut rd = Reader::new();
		let toks = ["0", "12", "-1.5e3", "1e", "01", "1.", "-", "+1", "0x1", "NaN", "Infinity", "1 ", " 1", "", "1,2", "1e+", ".5", "1.e2", "--1", "1e5", "-0", "1E-7", "true", "[1]", "\"1\"", "1\n", "9".repeat(40).as_str(), "1_000"].map(String::from);
		for tok in toks.iter() {
			for nested in [false, true] {
				number_token_case(&mut rep, &mut rd, tok, nested);
			}
		}
		rep.count("family:values-through-the-serde-number-token", rep.evaluations);
		total.merge(rep);
	}

	let (rule, assumptions) = if c04 {
		(
			"a case is a (value, option record) pair: the three presets, every record differing from 4 base records in at most two numeric fields with values 0..3 (exhaustive pairwise cover) on several values each, and random records (fields 0..3 independently for arrays and objects, Spaces(0..4)/Tabs(0..2), every Limit variant with thresholds around the actual widths and item counts); for each: the output must be accepted by the reference recognizer, parse back (crate parser) to an equal value, and equal the reference compact form once whitespace outside strings is removed; distinct pairs counted by hash",
			vec!["values are built through Object::from_vec / push from a generated tree (strings of every class, any valid number spelling, duplicate and empty keys, empty containers, depth <= 5)".to_string()],
		)
	} else {
		(
			"a case is a (value, option record) pair as in C04, with array and object fields deliberately different and thresholds drawn from {w-1, w, w+1} around the actual one-line widths and item counts of the containers of the value; the printed text must equal the reference layout byte for byte; inline and compact presets must not contain a line break; distinct pairs counted by hash",
			vec!["the reference layout (harness/src/oracle/print.rs) is written from the documentation of print::Options and Limit and the property statement; it is self-tested against the 8 container expectations of tests/print.rs".to_string()],
		)
	};
	conclude(
		cfg,
		EvidenceMeta {
			id,
			rule,
			exhaustive: false,
			assumptions,
			extra: json!({}),
		},
		total,
		started,
		if cfg.san { 5_000 } else { 100_000 },
	)
	.exit
}

pub fn run_c04(cfg: &Config) -> i32 {
	run_print(cfg, "C04")
}

pub fn run_c13(cfg: &Config) -> i32 {
	run_print(cfg, "C13")
}

/// Oracle self-test: the container expectations of tests/print.rs and the
/// compact form of a hand-written value.
pub fn selftest() -> Result<(), String> {
	let mut rd = Reader::new();
	let cases: [(&str, &str); 9] = [
		("[]", "[]"),
		("[null]", "[ null ]"),
		("[\"azertyuiop\"]", "[ \"azertyuiop\" ]"),
		("[\"azertyuiopq\"]", "[\n  \"azertyuiopq\"\n]"),
		("[true,false]", "[\n  true,\n  false\n]"),
		("{\"a\":null}", "{ \"a\": null }"),
		("{\"a\":null,\"b\":12}", "{\n  \"a\": null,\n  \"b\": 12\n}"),
		("{\"a\":[null],\"b\":[13]}", "{\n  \"a\": [ null ],\n  \"b\": [ 13 ]\n}"),
		("{\"a\":[null,[]],\"b\":[14]}", "{\n  \"a\": [\n    null,\n    []\n  ],\n  \"b\": [ 14 ]\n}"),
	];
	for (doc, want) in cases {
		let r = rd.read(doc.as_bytes(), true).root.ok_or("self-test document rejected")?;
		let mut got = String::new();
		pr::layout(&r, &POpts::pretty(), 0, &mut got);
		if got != want {
			return Err(format!("layout oracle self-test: {} -> `{}`, tests/print.rs expects `{}`", doc, got, want));
		}
		let mut c = String::new();
		pr::compact(&r, &mut c);
		if c != doc {
			return Err(format!("compact oracle self-test: {} -> {}", doc, c));
		}
	}
	let mut s = String::new();
	pr::write_string("\u{20ac}$\u{f}\nA'B\"\\\\\"/", &mut s);
	if s != "\"\u{20ac}$\\u000f\\nA'B\\\"\\\\\\\\\\\"/\"" {
		return Err(format!("string oracle self-test (RFC 8785 example): {}", s));
	}
	Ok(())
}

pub fn replay_case(id: &str, case: &serde_json::Value) -> Option<Vec<String>> {
	if case.get("sub")?.as_str()? == "number-token" {
		let mut rep = Report::new();
		number_token_case(&mut rep, &mut Reader::new(), case.get("token")?.as_str()?, case.get("nested")?.as_bool()?);
		return Some(rep.violations.iter().map(|v| format!("[{}] {}", v.signature, v.what)).collect());
	}
	let doc = case.get("value_compact")?.as_str()?;
	let mut rd = Reader::new();
	let r = rd.read(doc.as_bytes(), true).root?;
	match case.get("sub")?.as_str()? {
		"compact" => {
			let mut rep = Report::new();
			c08_one(&mut rep, "replay", &r);
			Some(rep.violations.iter().map(|v| format!("[{}] {}", v.signature, v.what)).collect())
		}
		"print" => {
			let o = opts_from_json(case.get("options")?)?;
			let mut mon = PrintMon {
				rep: Report::new(),
				reader: Reader::new(),
				c04: id == "C04",
				c13: id == "C13",
			};
			let v = from_rval(&r);
			mon.one("replay", &r, &v, &o);
			Some(mon.rep.violations.iter().map(|v| format!("[{}] {}", v.signature, v.what)).collect())
		}
		"base-depth" => {
			let o = opts_from_json(case.get("options")?)?;
			let depth = case.get("depth")?.as_u64()? as usize;
			let v = from_rval(&r);
			let mut want = String::new();
			pr::layout(&r, &o, depth, &mut want);
			let ro = o.to_real();
			let got = guard(|| AtDepth(&v, ro, depth).to_string());
			Some(if got.as_deref() != Ok(want.as_str()) { vec![format!("[{}:layout-differs:fmt_with] printing at base depth {} differs from the documented layout (or panics): {:?}", id, depth, got.map(|g| g.len()))] } else { vec![] })
		}
		_ => None,
	}
}
