//! C12 — lenient options are a conservative extension relaxing only surrogate escapes.

use super::parsefam::{self as pf, Flags};
use crate::monitor::{conclude, Config, EvidenceMeta, Report, Tier};
use serde_json::json;
use std::time::Instant;

pub fn run(cfg: &Config) -> i32 {
	let started = Instant::now();
	let thorough = cfg.tier == Tier::Thorough && !cfg.san;
	let small = if cfg.san { 1 } else { 0 };
	let flags = Flags {
		c12: true,
		..Default::default()
	};
	let mut total = Report::new();
	if let Err(m) = pf::selftest_reference(cfg) {
		total.inconclusive.push(format!("oracle self-test failed: {}", m))
	}
	// the named option records: strict (the default) relaxes nothing, flexible relaxes both escapes
	{
		use json_syntax::parse::Options;
		let (s, d, f) = (Options::strict(), Options::default(), Options::flexible());
		total.evaluations += 1;
		if s.accept_truncated_surrogate_pair || s.accept_invalid_codepoints || d.accept_truncated_surrogate_pair || d.accept_invalid_codepoints || !f.accept_truncated_surrogate_pair || !f.accept_invalid_codepoints {
			total.violation("C12:named-options", "Options::strict() / default() / flexible() do not carry the documented flags".to_string(), serde_json::json!({"sub": "options"}));
		}
		// a document with both kinds of lone surrogate is read by flexible() as by both flags set
		let doc = "[\"\\ud800\",\"\\udc00x\"]";
		let a = json_syntax::Parse::parse_str_with(doc, f).map(|(v, _): (json_syntax::Value, _)| v).ok();
		let b = crate::real::parse_str_with(doc, crate::oracle::rfc8259::Opts { truncated: true, invalid: true }).ok().map(|x| x.0);
		if a.is_none() || a != b {
			total.violation("C12:named-options", format!("Options::flexible() reads `{}` as {:?}, both flags set as {:?}", doc, a, b), serde_json::json!({"sub": "options"}));
		}
	}
	let mut add = |total: &mut Report, (r, _): (Report, Vec<u8>)| total.merge(r);
	add(&mut total, pf::fam_surrogates(cfg, flags, if thorough { 6 } else { 4 }));
	add(&mut total, pf::fam_sigma(cfg, flags, "sigma-c-strings", &crate::gen::SIGMA_C, if thorough { 5 } else { 4 - small }));
	add(&mut total, pf::fam_sigma(cfg, flags, "sigma-t-token-sequences", &crate::gen::SIGMA_T, if thorough { 6 } else { 4 }));
	add(&mut total, pf::fam_lexical(cfg, flags));
	add(&mut total, pf::fam_corpus(cfg, flags, thorough));
	add(&mut total, pf::fam_valid_token_docs(cfg, flags, if thorough { 7 } else { 6 }));
	add(&mut total, pf::fam_block_boundaries(cfg, flags));
	add(&mut total, pf::fam_long_strings(cfg, flags, if cfg.san { 300 } else { 2300 }));
	add(&mut total, pf::fam_long_lexemes(cfg, flags, if cfg.san { 200 } else { 1200 }));
	add(&mut total, pf::fam_escape_runs(cfg, flags, if cfg.san { 40 } else { 72 }));
	add(&mut total, pf::fam_nesting_patterns(cfg, flags, if cfg.san { 70 } else { 200 }));
	add(&mut total, pf::fam_generated(cfg, flags, cfg.budget(100_000, 3_000_000), false));
	add(&mut total, pf::fam_generated(cfg, flags, cfg.budget(200_000, 5_000_000), true));
	if thorough {
		add(&mut total, pf::fam_bytes(cfg, flags, false));
	}
	conclude(
		cfg,
		EvidenceMeta {
			id: "C12",
			rule: "every input is parsed under all four option values; acceptance and decoded text are compared with the reference lenient decoder; strict-valid inputs must give identical value and code map under all four; inputs: every sequence of up to 4 (thorough 6) string elements from {2 high escapes, 2 low escapes, ordinary escape, short escape, raw BMP, raw supplementary} in 8 shapes (value, key, array item, unterminated, followed by a control / bad escape / garbage), plus the C01 families; non-trivial = non-empty input; distinct by construction / by hash",
			exhaustive: false,
			assumptions: vec!["reference semantics of the two options as stated by the property: unpaired high needs the truncated-pair option, lone low needs the invalid-code-point option, each yields one U+FFFD".into()],
			extra: json!({}),
		},
		total,
		started,
		if cfg.san { 50_000 } else { 500_000 },
	)
	.exit
}
