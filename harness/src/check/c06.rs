//! C06 — objects are insertion-ordered multimaps whose key index never goes stale.
//!
//! History + executable model: every operation goes through `objmodel::apply`,
//! and after every operation `objmodel::check_state` compares entries, all
//! key queries and the raw index buckets (hook) with the model.

use crate::monitor::{conclude, fnv, guard, parallel, Config, EvidenceMeta, Report, Tier};
use crate::oracle::objmodel::{apply, check_state, Consume, Fresh, Model, Op, CONSUMES};
use crate::rng::Rng;
use json_syntax::Object;
use serde_json::json;
use std::collections::HashSet;
use std::time::Instant;

/// Operations enabled in a state of `len` entries over key universe `keys`.
pub fn alphabet(keys: &[&str], len: usize) -> Vec<Op> {
	let mut ops = Vec::new();
	for k in keys {
		let k = k.to_string();
		ops.push(Op::Push(k.clone()));
		ops.push(Op::PushFront(k.clone()));
		for c in CONSUMES {
			ops.push(Op::Insert(k.clone(), c));
			ops.push(Op::InsertFront(k.clone(), c));
			ops.push(Op::Remove(k.clone(), c));
		}
		ops.push(Op::RemoveUnique(k.clone()));
		ops.push(Op::GetMut(k.clone()));
		ops.push(Op::GetOrInsertWith(k.clone()));
	}
	for i in 0..=len {
		ops.push(Op::RemoveAt(i));
	}
	ops.push(Op::Sort);
	ops.push(Op::RebuildFromVec);
	ops.push(Op::CloneContinue);
	ops.push(Op::CloneFromIntoFresh);
	ops.push(Op::Canonicalize);
	ops.push(Op::ExtendPairs(vec![keys[0].to_string(), keys[keys.len() - 1].to_string()]));
	ops
}

fn abstract_state(m: &Model) -> u64 {
	let mut s = String::new();
	for e in &m.entries {
		s.push_str(&e.0);
		s.push('\u{0}');
	}
	fnv(s.as_bytes())
}

struct Explorer<'a> {
	keys: &'a [&'a str],
	max_len: usize,
	rep: Report,
	states: HashSet<u64>,
	shapes: HashSet<u64>,
}

impl<'a> Explorer<'a> {
	/// Replays `hist` from an empty object; checks after the last operation only
	/// (prefixes were checked when they were the whole history).
	fn run_history(&mut self, hist: &[Op]) -> Option<(Object, Model)> {
		let mut obj = Object::new();
		let mut m = Model::new();
		let mut fresh = Fresh(0);
		for (i, op) in hist.iter().enumerate() {
			let last = i + 1 == hist.len();
			let r = guard(|| apply(op, &mut obj, &mut m, &mut fresh));
			let r = match r {
				Ok(r) => r,
				Err(p) => Err(format!("panic: {}", p)),
			};
			self.rep.count("operations_applied", 1);
			if let Err(e) = r {
				if last {
					self.fail(hist, "operation-result", e);
				}
				return None;
			}
			if last {
				match guard(|| check_state(&obj, &m)) {
					Ok(Ok(st)) => {
						self.rep.count("queries_checked", st.queries);
						self.rep.count("states_checked", 1);
						self.states.insert(abstract_state(&m));
						let dump = obj.verif_index_dump();
						self.shapes.insert(fnv(format!("{}|{:?}", dump.capacity, dump.buckets).as_bytes()));
					}
					Ok(Err(e)) => {
						self.fail(hist, "state", e);
						return None;
					}
					Err(p) => {
						self.fail(hist, "panic", p);
						return None;
					}
				}
			}
		}
		Some((obj, m))
	}

	fn fail(&mut self, hist: &[Op], cat: &str, e: String) {
		self.rep.violation(
			format!("C06:{}:{}", cat, op_name(hist.last().unwrap())),
			format!("after history {:?}: {}", hist, e),
			json!({"sub": "history", "ops": hist.iter().map(op_json).collect::<Vec<_>>()}),
		);
	}

	fn dfs(&mut self, hist: &mut Vec<Op>, len_now: usize) {
		if hist.len() >= self.max_len {
			return;
		}
		for op in alphabet(self.keys, len_now) {
			hist.push(op);
			self.rep.evaluations += 1;
			self.rep.distinct_by_construction(1);
			if let Some((_, m)) = self.run_history(hist) {
				let n = m.entries.len();
				self.dfs(hist, n);
			}
			hist.pop();
		}
	}
}

pub fn op_name(op: &Op) -> &'static str {
	match op {
		Op::Push(_) => "push",
		Op::PushEntry(_) => "push_entry",
		Op::PushFront(_) => "push_front",
		Op::PushEntryFront(_) => "push_entry_front",
		Op::Insert(..) => "insert",
		Op::InsertFront(..) => "insert_front",
		Op::Remove(..) => "remove",
		Op::RemoveAt(_) => "remove_at",
		Op::RemoveUnique(_) => "remove_unique",
		Op::Sort => "sort",
		Op::RebuildFromVec => "from_vec",
		Op::RebuildFromIterEntries => "from_iter_entries",
		Op::RebuildFromIterPairs => "from_iter_pairs",
		Op::ExtendEntries(_) => "extend_entries",
		Op::ExtendPairs(_) => "extend_pairs",
		Op::GetMut(_) => "get_mut",
		Op::IterMut => "iter_mut",
		Op::GetUniqueMut(_) => "get_unique_mut",
		Op::GetOrInsertWith(_) => "get_or_insert_with",
		Op::GetMutOrInsertWith(_) => "get_mut_or_insert_with",
		Op::CloneContinue => "clone",
		Op::CloneAndDropOriginalLater => "clone_then_modify_original",
		Op::CloneFromIntoFresh => "clone_from_into_fresh",
		Op::CloneFromIntoUsed => "clone_from_into_used",
		Op::Canonicalize => "canonicalize",
		Op::IntoIterRebuild => "into_iter",
	}
}

fn consume_name(c: Consume) -> &'static str {
	match c {
		Consume::All => "all",
		Consume::One => "one",
		Consume::None => "none",
	}
}

pub fn op_json(op: &Op) -> serde_json::Value {
	match op {
		Op::Push(k) | Op::PushEntry(k) | Op::PushFront(k) | Op::PushEntryFront(k) | Op::RemoveUnique(k) | Op::GetMut(k) | Op::GetUniqueMut(k) | Op::GetOrInsertWith(k) | Op::GetMutOrInsertWith(k) => {
			json!({"op": op_name(op), "key": k})
		}
		Op::Insert(k, c) | Op::InsertFront(k, c) | Op::Remove(k, c) => json!({"op": op_name(op), "key": k, "consume": consume_name(*c)}),
		Op::RemoveAt(i) => json!({"op": "remove_at", "index": i}),
		Op::ExtendEntries(ks) | Op::ExtendPairs(ks) => json!({"op": op_name(op), "keys": ks}),
		_ => json!({"op": op_name(op)}),
	}
}

pub fn op_from_json(j: &serde_json::Value) -> Option<Op> {
	let k = || j.get("key").and_then(|k| k.as_str()).unwrap_or("").to_string();
	let c = || match j.get("consume").and_then(|k| k.as_str()) {
		Some("one") => Consume::One,
		Some("none") => Consume::None,
		_ => Consume::All,
	};
	let ks = || -> Vec<String> {
		j.get("keys")
			.and_then(|a| a.as_array())
			.map(|a| a.iter().filter_map(|x| x.as_str().map(|s| s.to_string())).collect())
			.unwrap_or_default()
	};
	Some(match j.get("op")?.as_str()? {
		"push" => Op::Push(k()),
		"push_entry" => Op::PushEntry(k()),
		"push_front" => Op::PushFront(k()),
		"push_entry_front" => Op::PushEntryFront(k()),
		"insert" => Op::Insert(k(), c()),
		"insert_front" => Op::InsertFront(k(), c()),
		"remove" => Op::Remove(k(), c()),
		"remove_at" => Op::RemoveAt(j.get("index")?.as_u64()? as usize),
		"remove_unique" => Op::RemoveUnique(k()),
		"sort" => Op::Sort,
		"from_vec" => Op::RebuildFromVec,
		"from_iter_entries" => Op::RebuildFromIterEntries,
		"from_iter_pairs" => Op::RebuildFromIterPairs,
		"extend_entries" => Op::ExtendEntries(ks()),
		"extend_pairs" => Op::ExtendPairs(ks()),
		"get_mut" => Op::GetMut(k()),
		"iter_mut" => Op::IterMut,
		"get_unique_mut" => Op::GetUniqueMut(k()),
		"get_or_insert_with" => Op::GetOrInsertWith(k()),
		"get_mut_or_insert_with" => Op::GetMutOrInsertWith(k()),
		"clone" => Op::CloneContinue,
		"clone_then_modify_original" => Op::CloneAndDropOriginalLater,
		"clone_from_into_fresh" => Op::CloneFromIntoFresh,
		"clone_from_into_used" => Op::CloneFromIntoUsed,
		"canonicalize" => Op::Canonicalize,
		"into_iter" => Op::IntoIterRebuild,
		_ => return None,
	})
}

/// Exhaustive exploration of all histories of length <= max_len over `keys`,
/// sharded by the first operation.
fn exhaustive(cfg: &Config, keys: &'static [&'static str], max_len: usize) -> (Report, usize, usize) {
	let first_ops = alphabet(keys, 0);
	let n = first_ops.len();
	let states = std::sync::Mutex::new(HashSet::new());
	let shapes = std::sync::Mutex::new(HashSet::new());
	let rep = parallel(cfg.threads, n, |i| {
		let mut ex = Explorer {
			keys,
			max_len,
			rep: Report::new(),
			states: HashSet::new(),
			shapes: HashSet::new(),
		};
		let mut hist = vec![first_ops[i].clone()];
		ex.rep.evaluations += 1;
		ex.rep.distinct_by_construction(1);
		if let Some((_, m)) = ex.run_history(&hist) {
			let len = m.entries.len();
			ex.dfs(&mut hist, len);
		}
		if i == 0 {
			ex.rep.sample(json!({"family": "exhaustive-histories", "keys": keys, "max_length": max_len, "first_operation": op_json(&first_ops[0])}));
		}
		states.lock().unwrap().extend(ex.states.iter().copied());
		shapes.lock().unwrap().extend(ex.shapes.iter().copied());
		ex.rep
	});
	let a = states.into_inner().unwrap().len();
	let b = shapes.into_inner().unwrap().len();
	(rep, a, b)
}

/// Exhaustive exploration of every continuation of length <= depth from every
/// start state made of 3..=max_start entries over `keys` (runs of duplicates
/// that the plain length bound does not reach).
fn exhaustive_from_states(cfg: &Config, keys: &'static [&'static str], max_start: usize, depth: usize) -> (Report, usize, usize) {
	let mut starts: Vec<Vec<Op>> = Vec::new();
	for n in 3..=max_start {
		let k = keys.len();
		let total = k.pow(n as u32);
		for code in 0..total {
			let mut c = code;
			let mut ops = Vec::with_capacity(n);
			for j in 0..n {
				let key = keys[c % k].to_string();
				c /= k;
				ops.push(if (code + j) % 5 == 0 { Op::PushFront(key) } else { Op::Push(key) });
			}
			starts.push(ops);
		}
	}
	let states = std::sync::Mutex::new(HashSet::new());
	let shapes = std::sync::Mutex::new(HashSet::new());
	let starts = std::sync::Arc::new(starts);
	let st2 = starts.clone();
	let rep = parallel(cfg.threads, starts.len(), |i| {
		let mut ex = Explorer {
			keys,
			max_len: st2[i].len() + depth,
			rep: Report::new(),
			states: HashSet::new(),
			shapes: HashSet::new(),
		};
		let mut hist = st2[i].clone();
		ex.rep.evaluations += 1;
		ex.rep.distinct_by_construction(1);
		if let Some((_, m)) = ex.run_history(&hist) {
			let len = m.entries.len();
			ex.dfs(&mut hist, len);
		}
		states.lock().unwrap().extend(ex.states.iter().copied());
		shapes.lock().unwrap().extend(ex.shapes.iter().copied());
		ex.rep
	});
	let a = states.into_inner().unwrap().len();
	let b = shapes.into_inner().unwrap().len();
	(rep, a, b)
}

fn random_key(rng: &mut Rng, universe: &[String]) -> String {
	universe[rng.below(universe.len())].clone()
}

fn make_universe(rng: &mut Rng, n: usize) -> Vec<String> {
	let mut u = Vec::with_capacity(n);
	for i in 0..n {
		let k = match rng.below(6) {
			0 => format!("k{}", i),
			1 => format!("{:016}", i),            // exactly 16 bytes: inline capacity boundary
			2 => format!("{:017}", i),            // 17 bytes: spilled
			3 => format!("{:015}", i),            // 15 bytes
			4 => {
				// multi-byte; U+E000.. and supplementary characters order differently in UTF-8 and UTF-16
				if i % 2 == 0 {
					format!("\u{e000}{}\u{1f600}", i)
				} else {
					format!("\u{1f600}{}\u{ff5e}", i)
				}
			}
			_ => format!("a-rather-long-key-that-lives-on-the-heap-{}", i),
		};
		u.push(k);
	}
	if n > 3 {
		u[0] = String::new();
	}
	u
}

pub fn random_op(rng: &mut Rng, universe: &[String], len: usize, shrink_bias: bool) -> Op {
	let k = random_key(rng, universe);
	let c = CONSUMES[rng.below(3)];
	let roll = rng.below(100);
	if shrink_bias {
		match roll {
			0..=19 => Op::Remove(k, c),
			20..=49 => Op::RemoveAt(if len == 0 { 0 } else { rng.below(len + 1) }),
			50..=59 => Op::RemoveUnique(k),
			60..=69 => Op::Insert(k, c),
			70..=79 => Op::InsertFront(k, c),
			80..=89 => Op::PushFront(k),
			_ => Op::Push(k),
		}
	} else {
		match roll {
			0..=24 => Op::Push(k),
			25..=29 => Op::PushEntry(k),
			30..=44 => Op::PushFront(k),
			45..=47 => Op::PushEntryFront(k),
			48..=55 => Op::Insert(k, c),
			56..=62 => Op::InsertFront(k, c),
			63..=68 => Op::Remove(k, c),
			69..=76 => Op::RemoveAt(if len == 0 { 0 } else if rng.chance(1, 40) { usize::MAX - rng.below(2) } else { rng.below(len + 2) }),
			77..=79 => Op::RemoveUnique(k),
			80 => {
				if rng.chance(1, 2) {
					Op::Sort
				} else {
					Op::Canonicalize
				}
			}
			81 => Op::RebuildFromVec,
			82 => Op::RebuildFromIterEntries,
			83 => Op::RebuildFromIterPairs,
			84 => Op::IntoIterRebuild,
			85..=86 => Op::ExtendEntries((0..rng.range(1, 5)).map(|_| random_key(rng, universe)).collect()),
			87..=88 => Op::ExtendPairs((0..rng.range(1, 5)).map(|_| random_key(rng, universe)).collect()),
			89..=91 => Op::GetMut(k),
			92 => Op::IterMut,
			93..=94 => Op::GetUniqueMut(k),
			95 => Op::GetOrInsertWith(k),
			96 => Op::GetMutOrInsertWith(k),
			97 => Op::CloneContinue,
			98 => {
				if rng.chance(1, 2) {
					Op::CloneFromIntoFresh
				} else {
					Op::CloneFromIntoUsed
				}
			}
			_ => Op::CloneAndDropOriginalLater,
		}
	}
}

/// One random history; returns (operations, growth events, shrink phases).
pub fn random_history(rep: &mut Report, rng: &mut Rng, n_keys: usize, n_ops: usize, check_every: usize) {
	let universe = make_universe(rng, n_keys);
	let mut obj = Object::new();
	let mut m = Model::new();
	let mut fresh = Fresh(0);
	let mut hist: Vec<Op> = Vec::new();
	let mut last_cap = 0usize;
	let mut shrink = false;
	for i in 0..n_ops {
		// alternate growth and shrink phases so that the table sees tombstones and rehashes
		if i % 97 == 0 {
			shrink = rng.chance(1, 3) && m.entries.len() > n_keys / 2;
		}
		let op = random_op(rng, &universe, m.entries.len(), shrink);
		hist.push(op.clone());
		rep.count("operations_applied", 1);
		rep.count(&format!("op:{}", op_name(&op)), 1);
		let r = match guard(|| apply(&op, &mut obj, &mut m, &mut fresh)) {
			Ok(r) => r,
			Err(p) => Err(format!("panic: {}", p)),
		};
		let r = r.and_then(|()| {
			if check_every <= 1 || i % check_every == 0 || i + 1 == n_ops {
				match guard(|| check_state(&obj, &m)) {
					Ok(Ok(st)) => {
						rep.count("queries_checked", st.queries);
						rep.count("states_checked", 1);
						rep.max("largest_object_entries", m.entries.len() as u64);
						rep.max("largest_bucket_capacity", st.capacity as u64);
						rep.max("most_distinct_keys", st.buckets as u64);
						if st.capacity != last_cap {
							if last_cap != 0 {
								rep.count("index_capacity_changes(growth/rehash)", 1);
							}
							last_cap = st.capacity;
						}
						Ok(())
					}
					Ok(Err(e)) => Err(e),
					Err(p) => Err(format!("panic in queries: {}", p)),
				}
			} else {
				Ok(())
			}
		});
		if let Err(e) = r {
			// keep the replay short: the last 60 operations matter most, but the whole history is needed to replay
			rep.violation(
				format!("C06:random:{}", op_name(&op)),
				format!("after {} operations over {} keys (last: {:?}): {}", i + 1, n_keys, op, e),
				json!({"sub": "history", "ops": hist.iter().map(op_json).collect::<Vec<_>>()}),
			);
			return;
		}
	}
	if rep.samples.len() < 2 {
		rep.sample(json!({"family": "random-histories", "keys": n_keys, "operations": n_ops, "first_operations": hist.iter().take(12).map(op_json).collect::<Vec<_>>(), "final_entries": m.entries.len()}));
	}
	rep.distinct_hash(fnv(format!("{:?}", hist.iter().take(40).collect::<Vec<_>>()).as_bytes()) ^ n_ops as u64);
}

/// Grow to hundreds of distinct keys, drain to almost nothing through removals
/// at arbitrary positions, grow again: drives the index through its largest
/// capacities, tombstones and any shrink policy.
pub fn grow_drain_history(rep: &mut Report, rng: &mut Rng) {
	let n_keys = rng.range(230, 700);
	let universe = make_universe(rng, n_keys);
	let mut obj = Object::new();
	let mut m = Model::new();
	let mut fresh = Fresh(0);
	let mut hist: Vec<Op> = Vec::new();
	let mut last_cap = 0usize;
	let mut step = |op: Op, obj: &mut Object, m: &mut Model, fresh: &mut Fresh, hist: &mut Vec<Op>, rep: &mut Report, check: bool| -> bool {
		hist.push(op.clone());
		rep.count("operations_applied", 1);
		rep.count(&format!("op:{}", op_name(&op)), 1);
		let r = match guard(|| apply(&op, obj, m, fresh)) {
			Ok(r) => r,
			Err(p) => Err(format!("panic: {}", p)),
		};
		let r = r.and_then(|()| {
			if !check {
				return Ok(());
			}
			match guard(|| check_state(obj, m)) {
				Ok(Ok(st)) => {
					rep.count("queries_checked", st.queries);
					rep.count("states_checked", 1);
					rep.max("largest_object_entries", m.entries.len() as u64);
					rep.max("largest_bucket_capacity", st.capacity as u64);
					rep.max("most_distinct_keys", st.buckets as u64);
					if st.capacity != last_cap {
						if last_cap != 0 {
							rep.count("index_capacity_changes(growth/rehash)", 1);
						}
						last_cap = st.capacity;
					}
					Ok(())
				}
				Ok(Err(e)) => Err(e),
				Err(p) => Err(format!("panic in queries: {}", p)),
			}
		});
		if let Err(e) = r {
			rep.violation(
				format!("C06:grow-drain:{}", op_name(&op)),
				format!("after {} operations of a grow/drain history over {} keys (last: {:?}): {}", hist.len(), n_keys, op, e),
				json!({"sub": "history", "ops": hist.iter().map(op_json).collect::<Vec<_>>()}),
			);
			return false;
		}
		true
	};
	for round in 0..2 {
		// grow: every key once (some twice), in random order
		let mut order: Vec<usize> = (0..n_keys).collect();
		rng.shuffle(&mut order);
		for (j, &k) in order.iter().enumerate() {
			let op = if rng.chance(1, 6) { Op::PushFront(universe[k].clone()) } else { Op::Push(universe[k].clone()) };
			if !step(op, &mut obj, &mut m, &mut fresh, &mut hist, rep, j % 16 == 0) {
				return;
			}
			if rng.chance(1, 10) {
				let op = Op::Push(universe[order[rng.below(j + 1)]].clone());
				if !step(op, &mut obj, &mut m, &mut fresh, &mut hist, rep, false) {
					return;
				}
			}
		}
		// drain to a handful of entries through removals at arbitrary positions
		let floor = rng.range(0, 20);
		let mut i = 0usize;
		while m.entries.len() > floor {
			let len = m.entries.len();
			let op = match rng.below(10) {
				0..=5 => Op::RemoveAt(rng.below(len)),
				6 => Op::RemoveAt(0),
				7 => Op::Remove(m.entries[rng.below(len)].0.clone(), crate::oracle::objmodel::CONSUMES[rng.below(3)]),
				8 => Op::RemoveUnique(m.entries[rng.below(len)].0.clone()),
				_ => Op::RemoveAt(len - 1),
			};
			i += 1;
			if !step(op, &mut obj, &mut m, &mut fresh, &mut hist, rep, i % 4 == 0 || len < 130) {
				return;
			}
		}
		let _ = round;
	}
	rep.distinct_hash(fnv(format!("grow-drain {} {:?}", n_keys, hist.iter().take(30).collect::<Vec<_>>()).as_bytes()));
}

/// Histories built around size thresholds: `n` distinct keys (around the
/// capacities at which a hash index grows: 14/15, 28/29, 56/57, 112/113,
/// 224/225, 448/449) or `d` duplicates of one key (around 32, 64, 128),
/// followed by every tail of up to 3 pushes over {an early key, another early
/// key, a new key}, followed by one operation out of a list that touches the
/// head, the middle and the last positions. Each case is replayed from the
/// empty object and checked like any other history.
pub fn threshold_histories(rep: &mut Report, shard: usize, shards: usize, san: bool) {
	let mut case_no = 0usize;
	let mut run_case = |rep: &mut Report, prefix: &[Op], op: Op| {
		case_no += 1;
		if case_no % shards != shard {
			return;
		}
		rep.evaluations += 1;
		rep.distinct_by_construction(1);
		rep.count("threshold_histories", 1);
		let mut obj = Object::new();
		let mut m = Model::new();
		let mut fresh = Fresh(0);
		let mut fail: Option<String> = None;
		for o in prefix.iter().chain(std::iter::once(&op)) {
			rep.count("operations_applied", 1);
			match guard(|| apply(o, &mut obj, &mut m, &mut fresh)) {
				Ok(Ok(())) => {}
				Ok(Err(e)) => {
					fail = Some(format!("{:?}: {}", o, e));
					break;
				}
				Err(p) => {
					fail = Some(format!("{:?}: panic: {}", o, p));
					break;
				}
			}
		}
		if fail.is_none() {
			match guard(|| check_state(&obj, &m)) {
				Ok(Ok(st)) => {
					rep.count("queries_checked", st.queries);
					rep.count("states_checked", 1);
					rep.max("largest_object_entries", m.entries.len() as u64);
					rep.max("most_distinct_keys", st.buckets as u64);
					rep.max("largest_bucket_capacity", st.capacity as u64);
				}
				Ok(Err(e)) => fail = Some(e),
				Err(p) => fail = Some(format!("panic in queries: {}", p)),
			}
		}
		if let Some(e) = fail {
			let mut ops: Vec<serde_json::Value> = prefix.iter().map(op_json).collect();
			ops.push(op_json(&op));
			rep.violation(
				format!("C06:threshold:{}", op_name(&op)),
				format!("{} pushes, then {:?}: {}", prefix.len(), op, e),
				json!({"sub": "history", "ops": ops}),
			);
		}
	};
	let final_ops = |len: usize, keys: &[String]| -> Vec<Op> {
		let mut v = Vec::new();
		let mut pos: Vec<usize> = vec![0, 1, len / 2];
		for back in 1..=5 {
			if len >= back {
				pos.push(len - back);
			}
		}
		pos.push(len);
		pos.push(usize::MAX);
		pos.push(usize::MAX - 1);
		pos.sort();
		pos.dedup();
		for p in pos {
			v.push(Op::RemoveAt(p));
		}
		for k in keys {
			for c in CONSUMES {
				v.push(Op::Remove(k.clone(), c));
				v.push(Op::Insert(k.clone(), c));
				v.push(Op::InsertFront(k.clone(), c));
			}
			v.push(Op::RemoveUnique(k.clone()));
			v.push(Op::Push(k.clone()));
			v.push(Op::PushFront(k.clone()));
			v.push(Op::GetMutOrInsertWith(k.clone()));
			v.push(Op::GetMut(k.clone()));
		}
		v.push(Op::Sort);
		v.push(Op::Canonicalize);
		v.push(Op::CloneFromIntoUsed);
		v.push(Op::IntoIterRebuild);
		v
	};
	// (1) many distinct keys
	let sizes: &[usize] = if cfg!(miri) { &[15] } else if san { &[14, 15, 113] } else { &[3, 7, 8, 14, 15, 16, 28, 29, 31, 32, 33, 34, 56, 57, 63, 64, 65, 112, 113, 120, 224, 225, 300, 448, 449] };
	for &n in sizes {
		let base: Vec<Op> = (0..n).map(|j| Op::Push(format!("k{}", j))).collect();
		let tail_keys = ["k0".to_string(), format!("k{}", n - 1), "zz".to_string()];
		let mut tails: Vec<Vec<usize>> = vec![vec![]];
		let mut layer: Vec<Vec<usize>> = vec![vec![]];
		for _ in 0..(if cfg!(miri) { 0 } else if san { 2 } else { 3 }) {
			let mut next = Vec::new();
			for t in &layer {
				for k in 0..3 {
					let mut x = t.clone();
					x.push(k);
					next.push(x);
				}
			}
			tails.extend(next.iter().cloned());
			layer = next;
		}
		for t in &tails {
			let mut prefix = base.clone();
			for &k in t {
				prefix.push(Op::Push(tail_keys[k].clone()));
			}
			let len = prefix.len();
			let keys = [tail_keys[0].clone(), tail_keys[2].clone(), format!("k{}", n - 1)];
			for op in final_ops(len, &keys) {
				run_case(rep, &prefix, op);
			}
		}
	}
	// (2) many duplicates of one key, other keys before, between and after them
	let dups: &[usize] = if cfg!(miri) { &[4] } else if san { &[3, 64] } else { &[2, 3, 4, 31, 32, 33, 63, 64, 65, 66, 100, 127, 128, 129, 200] };
	for &d in dups {
		for layout in 0..(if cfg!(miri) { 2usize } else { 6 }) {
			let mut prefix: Vec<Op> = Vec::new();
			if layout % 2 == 1 {
				prefix.push(Op::Push("a".into()));
			}
			for j in 0..d {
				prefix.push(Op::Push("dup".into()));
				if layout >= 4 && j % 16 == 7 {
					prefix.push(Op::Push("b".into()));
				}
			}
			match layout % 3 {
				0 => {}
				1 => prefix.push(Op::Push("c".into())),
				_ => {
					prefix.push(Op::Push("c".into()));
					prefix.push(Op::Push("a".into()));
					prefix.push(Op::Push("dup".into()));
				}
			}
			let len = prefix.len();
			let keys = ["dup".to_string(), "a".to_string(), "c".to_string()];
			for op in final_ops(len, &keys) {
				run_case(rep, &prefix, op);
			}
		}
	}
}

pub fn run(cfg: &Config) -> i32 {
	let started = Instant::now();
	let thorough = cfg.tier == Tier::Thorough;
	let mut total = Report::new();
	let mut extra = serde_json::Map::new();

	if !cfg.san {
		static K2: [&str; 2] = ["a", "b"];
		static K3: [&str; 3] = ["a", "\u{ff5e}", "\u{1f600}"];
		static K1: [&str; 1] = ["k"];
		let (r, st, sh) = exhaustive(cfg, &K2, if thorough { 5 } else { 4 });
		total.count("exhaustive_histories_2_keys", r.evaluations);
		total.merge(r);
		extra.insert("distinct_abstract_states_2_keys".into(), json!(st));
		extra.insert("distinct_index_shapes_2_keys".into(), json!(sh));
		let (r, st, sh) = exhaustive(cfg, &K3, if thorough { 4 } else { 3 });
		total.count("exhaustive_histories_3_keys", r.evaluations);
		total.merge(r);
		extra.insert("distinct_abstract_states_3_keys".into(), json!(st));
		extra.insert("distinct_index_shapes_3_keys".into(), json!(sh));
		// every continuation of length <= 2 (3) from every start state of 3..=5 (6) entries over 2 keys
		let (r, st, sh) = exhaustive_from_states(cfg, &K2, if thorough { 6 } else { 5 }, if thorough { 3 } else { 2 });
		total.count("exhaustive_continuations_from_seeded_states", r.evaluations);
		total.merge(r);
		extra.insert("distinct_abstract_states_from_seeded_states".into(), json!(st));
		extra.insert("distinct_index_shapes_from_seeded_states".into(), json!(sh));
		// one key: long runs of duplicates (every history up to length 5 / 6)
		let (r, st, sh) = exhaustive(cfg, &K1, if thorough { 6 } else { 5 });
		total.count("exhaustive_histories_1_key", r.evaluations);
		total.merge(r);
		extra.insert("distinct_abstract_states_1_key".into(), json!(st));
		extra.insert("distinct_index_shapes_1_key".into(), json!(sh));
	}

	// histories around size thresholds (distinct keys, duplicates of one key)
	{
		let san = cfg.san;
		let rep = parallel(cfg.threads, 64, |i| {
			let mut rep = Report::new();
			threshold_histories(&mut rep, i, 64, san);
			rep
		});
		total.merge(rep);
	}

	// random histories: few keys / many duplicates, and many keys / growth cycles
	let ops_budget = cfg.budget(1_000_000, 40_000_000);
	// every shard runs at least one history: fewer shards under the interpreter
	let shards = if cfg!(miri) { 8usize } else { 64usize };
	let seed = cfg.seed;
	let san = cfg.san;
	let rep = parallel(cfg.threads, shards, |i| {
		let mut rep = Report::new();
		let mut rng = Rng::new(seed).fork(0xc06 + i as u64);
		let mut done = 0u64;
		let per = (ops_budget / shards as u64).max(1);
		let mut n_hist = 0u64;
		while done < per {
			if !san && n_hist % 40 == 7 {
				rep.evaluations += 1;
				n_hist += 1;
				let before = rep.counters.get("operations_applied").copied().unwrap_or(0);
				grow_drain_history(&mut rep, &mut rng);
				rep.count("grow_drain_histories", 1);
				done += rep.counters.get("operations_applied").copied().unwrap_or(0) - before;
				continue;
			}
			let (n_keys, n_ops, every) = match rng.below(10) {
				0..=3 => (rng.range(1, 4), rng.range(10, 60), 1),
				4..=6 => (rng.range(5, 20), rng.range(50, 300), 1),
				7..=8 => (rng.range(40, 200), rng.range(300, 1500), 7),
				_ => (rng.range(100, 400), rng.range(1500, 5000), 31),
			};
			let n_ops = if san { n_ops.min(per as usize) } else { n_ops };
			rep.evaluations += 1;
			n_hist += 1;
			random_history(&mut rep, &mut rng, n_keys, n_ops, every);
			done += n_ops as u64;
		}
		rep.count("random_histories", n_hist);
		if i == 0 {
			rep.sample(json!({"family": "random-histories", "note": "key universes of 1-400 keys (empty, short, 15/16/17-byte, multi-byte and long keys), 10-5000 operations, growth and shrink phases"}));
		}
		rep
	});
	total.merge(rep);

	total.count("index_buckets_not_in_increasing_order(noted: representation detail, the order of reported positions is checked through the queries)", crate::oracle::objmodel::BUCKET_ORDER_ANOMALIES.load(std::sync::atomic::Ordering::Relaxed));
	conclude(
		cfg,
		EvidenceMeta {
			id: "C06",
			rule: "a case is one operation history replayed from the empty object; exhaustive families enumerate every history up to the length bound over 1, 2 and 3 keys and every continuation of length <= 2 (thorough 3) from every start state of 3..5 (6) entries over 2 keys (each history counted once, distinct by construction); threshold histories: n distinct keys (3..449, around the capacities at which the index grows) or d duplicates of one key (2..200) followed by every tail of up to 3 pushes over an early key / a middle key / a new key and then one operation out of ~45 touching head, middle and the last five positions, every key class and every way of consuming a removal iterator; random histories are counted by a hash of their first 40 operations; after the last operation of every history prefix the object is compared with the ordered-list model (entries, result of the operation, 10 kinds of key query for every key and an absent key, index through the hook: one bucket per key, the positions of the buckets partition the entry positions and each sits under the key its entry carries); non-trivial = at least one operation",
			exhaustive: false,
			assumptions: vec![
				"the model (harness/src/oracle/objmodel.rs) states the documented semantics; where the documentation is silent (remove_unique on duplicates removes all matching entries and reports the first two) the model follows the observable behaviour of the pinned tree".into(),
				"sort ties are broken with Value's own Ord (numbers compare by spelling)".into(),
			],
			extra: serde_json::Value::Object(extra),
		},
		total,
		started,
		if cfg.san { 50 } else { 10_000 },
	)
	.exit
}

pub fn replay_case(case: &serde_json::Value) -> Option<Vec<String>> {
	let ops: Vec<Op> = case.get("ops")?.as_array()?.iter().filter_map(op_from_json).collect();
	let mut obj = Object::new();
	let mut m = Model::new();
	let mut fresh = Fresh(0);
	let mut out = Vec::new();
	for (i, op) in ops.iter().enumerate() {
		let r = match guard(|| apply(op, &mut obj, &mut m, &mut fresh)) {
			Ok(r) => r,
			Err(p) => Err(format!("panic: {}", p)),
		};
		let r = r.and_then(|()| match guard(|| check_state(&obj, &m)) {
			Ok(Ok(_)) => Ok(()),
			Ok(Err(e)) => Err(e),
			Err(p) => Err(format!("panic in queries: {}", p)),
		});
		if let Err(e) = r {
			out.push(format!("[C06:{}] after operation {} ({:?}): {}", op_name(op), i + 1, op, e));
			break;
		}
	}
	Some(out)
}
