//! C07 — parse errors point at the first offending character.

use super::parsefam::{self as pf, Flags};
use crate::monitor::{conclude, Config, EvidenceMeta, Report, Tier};
use serde_json::json;
use std::time::Instant;

pub fn run(cfg: &Config) -> i32 {
	let started = Instant::now();
	let thorough = cfg.tier == Tier::Thorough && !cfg.san;
	let small = if cfg.san { 1 } else { 0 };
	let flags = Flags {
		c07: true,
		..Default::default()
	};
	let mut total = Report::new();
	if let Err(m) = pf::selftest_reference(cfg) {
		total.inconclusive.push(format!("oracle self-test failed: {}", m))
	}
	let mut add = |total: &mut Report, (r, _): (Report, Vec<u8>)| total.merge(r);
	add(&mut total, pf::fam_sigma(cfg, flags, "sigma-c-strings", &crate::gen::SIGMA_C, if thorough { 6 } else { 5 - small }));
	add(&mut total, pf::fam_sigma(cfg, flags, "sigma-t-token-sequences", &crate::gen::SIGMA_T, if thorough { 6 } else { 5 - small }));
	add(&mut total, pf::fam_lexical(cfg, flags));
	if !cfg.san {
		add(&mut total, pf::fam_bytes(cfg, flags, thorough));
	}
	add(&mut total, pf::fam_corpus(cfg, flags, thorough));
	add(&mut total, pf::fam_surrogates(cfg, flags, if thorough { 6 } else { 4 }));
	add(&mut total, pf::fam_edit_every_position(cfg, flags, cfg.budget(3_000, 100_000)));
	if !cfg.san {
		add(&mut total, pf::fam_unicode_sweep(cfg, flags));
	}
	add(&mut total, pf::fam_block_boundaries(cfg, flags));
	add(&mut total, pf::fam_long_strings(cfg, flags, if cfg.san { 300 } else { 2300 }));
	add(&mut total, pf::fam_long_lexemes(cfg, flags, if cfg.san { 200 } else { 1200 }));
	add(&mut total, pf::fam_escape_runs(cfg, flags, if cfg.san { 40 } else { 72 }));
	add(&mut total, pf::fam_nesting_patterns(cfg, flags, if cfg.san { 70 } else { 200 }));
	add(&mut total, pf::fam_deep_errors(cfg, flags));
	add(&mut total, pf::fam_typed_impls(cfg, flags, if cfg.san { 3 } else { cfg.tier.pick(5, 6) as usize }));
	add(&mut total, pf::fam_generated(cfg, flags, cfg.budget(300_000, 10_000_000), true));
	conclude(
		cfg,
		EvidenceMeta {
			id: "C07",
			rule: "every rejected input's error (variant, offset, character, span, code units) from parse_slice_with and parse_str (other entry points on a sample) is checked against the reference viable-prefix automaton and UTF-8 validator; stream errors are injected at a character position of text inputs; inputs as in C01 plus single-character edits at every position of generated documents and all sequences of surrogate/escape/raw string elements; non-trivial = non-empty input; distinct by construction / by hash",
			exhaustive: false,
			assumptions: vec![
				"viable prefix = the reference automaton has a transition (JSON is LL(1) without dead states)".into(),
				"when both an unpaired surrogate escape and a later syntax error are present, either error is accepted (the property does not order them)".into(),
			],
			extra: json!({}),
		},
		total,
		started,
		if cfg.san { 100_000 } else { 1_000_000 },
	)
	.exit
}
