//! C09 (RFC 8785 conformance) and C10 (canonical form: idempotent, blind to
//! member order / spacing / escaping / number spelling; nothing else changes).

use crate::gen::{self, WriteStyle};
use crate::monitor::conv::{from_rval, from_rval_push, to_rval};
use crate::monitor::{conclude, fnv, guard, parallel, show, Config, EvidenceMeta, Report, Tier};
use crate::oracle::jcs;
use crate::oracle::objmodel::{check_state, Model};
use crate::oracle::print as pr;
use crate::oracle::rfc8259::{RVal, Reader};
use crate::rng::Rng;
use json_syntax::{Parse, Print, Value};
use serde_json::json;
use std::time::Instant;

// ---------------------------------------------------------------------------
// generators (I-JSON domain: no duplicate keys, numbers finite as doubles)
// ---------------------------------------------------------------------------

fn digits(rng: &mut Rng, n: usize, out: &mut String) {
	for i in 0..n {
		let d = if i == 0 { 1 + rng.below(9) } else { rng.below(10) };
		out.push((b'0' + d as u8) as char)
	}
}

/// An exact decimal: (sign, significant digits without leading zero, exponent
/// of the last digit). Value = digits x 10^exp10.
#[derive(Clone, Debug)]
pub struct Dec {
	pub neg: bool,
	pub digits: String,
	pub exp10: i32,
}

impl Dec {
	/// One spelling of this exact decimal in the RFC 8259 number grammar.
	pub fn spell(&self, rng: &mut Rng) -> String {
		let mut s = String::new();
		if self.neg {
			s.push('-')
		}
		let zero = self.digits.bytes().all(|b| b == b'0');
		let d = if zero { "0".to_string() } else { self.digits.clone() };
		let n = d.len() as i32;
		// choose where the decimal point goes: p digits before the point
		let style = rng.below(5);
		let (int_part, frac_part, e): (String, String, i32) = match style {
			0 => {
				// scientific: d.ddd e (exp10 + n - 1)
				(d[..1].to_string(), d[1..].to_string(), self.exp10 + n - 1)
			}
			1 => {
				// integer mantissa with exponent
				(d.clone(), String::new(), self.exp10)
			}
			2 => {
				// 0.ddd e (exp10 + n)
				("0".to_string(), d.clone(), self.exp10 + n)
			}
			3 if self.exp10 >= 0 && self.exp10 <= 30 => {
				// plain integer
				let mut i = d.clone();
				for _ in 0..self.exp10 {
					i.push('0')
				}
				(i, String::new(), 0)
			}
			3 if -self.exp10 < n + 350 && self.exp10 < 0 => {
				// plain fraction
				let shift = (-self.exp10) as usize;
				if shift < d.len() {
					(d[..d.len() - shift].to_string(), d[d.len() - shift..].to_string(), 0)
				} else {
					let mut f = String::new();
					for _ in 0..(shift - d.len()) {
						f.push('0')
					}
					f.push_str(&d);
					("0".to_string(), f, 0)
				}
			}
			_ => {
				// point somewhere in the middle
				let p = 1 + rng.below(d.len());
				(d[..p].to_string(), d[p..].to_string(), self.exp10 + n - p as i32)
			}
		};
		// the integer part must not have a leading zero unless it is "0"
		let int_trim = int_part.trim_start_matches('0');
		s.push_str(if int_trim.is_empty() { "0" } else { int_trim });
		let mut frac = frac_part;
		if rng.chance(1, 4) {
			for _ in 0..rng.range(1, 3) {
				frac.push('0')
			}
		}
		if !frac.is_empty() {
			s.push('.');
			s.push_str(&frac);
		}
		if e != 0 || rng.chance(1, 5) {
			s.push(if rng.chance(1, 2) { 'e' } else { 'E' });
			if e < 0 {
				s.push('-')
			} else if rng.chance(1, 2) {
				s.push('+')
			}
			if rng.chance(1, 8) {
				s.push('0')
			}
			s.push_str(&e.abs().to_string());
		}
		s
	}
}

fn finite(spelling: &str) -> bool {
	spelling.parse::<f64>().map(|x| x.is_finite()).unwrap_or(false)
}

/// Exact decimal of the midpoint between the double `m * 2^e` and its
/// successor, when it is cheaply computable: (2m+1) * 2^(e-1).
fn midpoint_dec(rng: &mut Rng) -> Option<Dec> {
	let m: u64 = (1u64 << 52) | (rng.next_u64() & ((1u64 << 52) - 1));
	let e: i32 = rng.range(0, 70) as i32 - 30; // 2^e scaling of the 53-bit integer
	let odd = 2 * (m as u128) + 1; // 54 bits
	let e1 = e - 1;
	if e1 >= 0 {
		if e1 > 60 {
			return None;
		}
		let v = odd << e1;
		Some(Dec {
			neg: rng.chance(1, 4),
			digits: v.to_string(),
			exp10: 0,
		})
	} else {
		let k = (-e1) as u32;
		if k > 30 {
			return None;
		}
		let v = odd.checked_mul(5u128.checked_pow(k)?)?;
		Some(Dec {
			neg: rng.chance(1, 4),
			digits: v.to_string(),
			exp10: -(k as i32),
		})
	}
}

/// A number of the I-JSON domain as an exact decimal.
pub fn gen_dec(rng: &mut Rng) -> Dec {
	loop {
		// under the interpreter only the short classes: parsing and rendering numbers of hundreds of digits
		// (in the library, in std and in the reference) costs minutes there
		let class = if cfg!(miri) { [0, 1, 2, 3, 4, 5, 11, 15, 16, 17][rng.below(10)] } else { rng.below(18) };
		let d = match class {
			0..=3 => {
				// few digits, small exponent
				let mut s = String::new();
				let n = rng.range(1, 6);
				digits(rng, n, &mut s);
				Dec { neg: rng.chance(1, 3), digits: s, exp10: rng.range(0, 12) as i32 - 6 }
			}
			4..=5 => {
				// 15-19 digits: around the precision of a double
				let mut s = String::new();
				let n = rng.range(15, 19);
				digits(rng, n, &mut s);
				Dec { neg: rng.chance(1, 3), digits: s, exp10: rng.range(0, 60) as i32 - 40 }
			}
			6..=8 => {
				// 20-40 digits with large exponents (the regime where approximate parsers fail)
				let mut s = String::new();
				let n = rng.range(20, 40);
				digits(rng, n, &mut s);
				Dec { neg: rng.chance(1, 3), digits: s, exp10: rng.range(0, 640) as i32 - 340 }
			}
			16 => {
				// a few digits at the bottom of the range: subnormals (where a short spelling is usually not
				// the shortest one of the nearest double) and values that underflow to zero
				let mut s = String::new();
				let n = rng.range(1, 6);
				digits(rng, n, &mut s);
				Dec { neg: rng.chance(1, 4), digits: s, exp10: -(rng.range(300, 345) as i32) }
			}
			17 => {
				// a few digits, tiny magnitude: often spelled without exponent, with dozens of leading zeros
				let mut s = String::new();
				let n = rng.range(1, 8);
				digits(rng, n, &mut s);
				Dec { neg: rng.chance(1, 4), digits: s, exp10: -(rng.range(18, 60) as i32) }
			}
			9 => {
				// hundreds of digits
				let mut s = String::new();
				let n = rng.range(100, 400);
				digits(rng, n, &mut s);
				Dec { neg: rng.chance(1, 3), digits: s, exp10: rng.range(0, 700) as i32 - 700 }
			}
			10 => {
				// random bit pattern printed with 17-30 digits
				let x = f64::from_bits(rng.next_u64());
				if !x.is_finite() || x == 0.0 {
					continue;
				}
				let p = rng.range(16, 29);
				let s = format!("{:.*e}", p, x.abs());
				let (mant, e) = s.split_once('e').unwrap();
				let ds: String = mant.chars().filter(|c| c.is_ascii_digit()).collect();
				Dec { neg: x < 0.0, digits: ds, exp10: e.parse::<i32>().unwrap() - p as i32 }
			}
			11 => {
				// thresholds of the ES layout: 1e21, 1e-6, 1e-7 and their neighbours
				let base = ["1", "999999999999999999999", "1000000000000000000001", "99999999999999995", "100000000000000005", "9999999999999999", "10000000000000001"][rng.below(7)];
				let e = [21, 20, 0, -6, -7, -5, 5, 4, -22, -23][rng.below(10)];
				Dec { neg: rng.chance(1, 4), digits: base.to_string(), exp10: e - (base.len() as i32 - 1) * (rng.below(2) as i32) }
			}
			12 => {
				// subnormals and the extremes of the range, the named extreme doubles and their neighbours
				let named = [f64::MAX, f64::MIN_POSITIVE, 5e-324, f64::EPSILON, 9007199254740992.0, 1.7976931348623155e308, 2.2250738585072009e-308, 4.4501477170144023e-308, 1e308, 1e-323, 0.1, 0.3, 1e23, 8.41e21, 2.2250738585072011e-308];
				let x = if rng.chance(1, 3) {
					let x = named[rng.below(named.len())];
					f64::from_bits(x.to_bits().wrapping_add(rng.below(3) as u64).wrapping_sub(1))
				} else {
					f64::from_bits(rng.next_u64() & 0x000f_ffff_ffff_ffff | if rng.chance(1, 3) { 0x7fe0_0000_0000_0000 } else { 0 })
				};
				if !x.is_finite() || x == 0.0 {
					continue;
				}
				let p = rng.range(17, 25);
				let s = format!("{:.*e}", p, x);
				let (mant, e) = s.split_once('e').unwrap();
				let ds: String = mant.chars().filter(|c| c.is_ascii_digit()).collect();
				Dec { neg: false, digits: ds, exp10: e.parse::<i32>().unwrap() - p as i32 }
			}
			13..=14 => {
				// exact midpoints between adjacent doubles, and +-1 in a far digit
				let Some(mut d) = midpoint_dec(rng) else { continue };
				match rng.below(4) {
					0 => (),
					1 => {
						d.digits.push_str("00000000001");
						d.exp10 -= 11;
					}
					3 => {
						// the deciding digit far beyond any digit budget of a bounded-precision parser
						let z = rng.range(700, 1300);
						for _ in 0..z {
							d.digits.push('0')
						}
						d.digits.push('1');
						d.exp10 -= z as i32 + 1;
					}
					_ => {
						// subtract one unit in a far digit: ...5 -> ...49999999999
						let mut b: Vec<u8> = d.digits.clone().into_bytes();
						let mut i = b.len() - 1;
						while b[i] == b'0' && i > 0 {
							i -= 1;
						}
						b[i] -= 1;
						for x in b.iter_mut().skip(i + 1) {
							*x = b'9';
						}
						d.digits = String::from_utf8(b).unwrap();
						d.digits.push_str("99999999999");
						d.exp10 -= 11;
						if d.digits.starts_with('0') {
							continue;
						}
					}
				}
				d
			}
			_ => {
				// zeros and integers near 2^53, 2^63, 2^64
				let base = ["0", "0", "9007199254740992", "9007199254740993", "9223372036854775807", "9223372036854775808", "18446744073709551615", "18446744073709551616", "4503599627370497"][rng.below(9)];
				Dec { neg: rng.chance(1, 2), digits: base.to_string(), exp10: if base == "0" { rng.range(0, 20) as i32 - 10 } else { 0 } }
			}
		};
		let probe = format!("{}e{}", d.digits, d.exp10);
		if finite(&probe) {
			return d;
		}
	}
}

pub fn gen_ijson_number(rng: &mut Rng) -> String {
	gen_dec(rng).spell(rng)
}

const KEY_POOLS: [&[&str]; 9] = [
	// distinct supplementary characters sharing their high surrogate, next to BMP neighbours
	&["\u{1f600}", "\u{1f601}", "\u{1f5ff}", "\u{1f600}\u{1f601}", "\u{1f601}\u{1f600}", "\u{ffff}", "\u{10000}", "\u{103ff}", "\u{10400}"],
	// long common prefixes (16+ UTF-16 units, beyond any inline capacity) before the deciding character
	&[
		"0123456789abcdef\u{fffd}",
		"0123456789abcdef\u{10ffff}",
		"0123456789abcdef\u{e000}",
		"0123456789abcdef\u{1f600}",
		"0123456789abcdef",
		"0123456789abcdefg",
		"0123456789abcde\u{1f600}\u{e000}",
		"0123456789abcde\u{1f600}\u{1f601}",
	],
	&["\u{e000}", "\u{ffff}", "\u{fb33}", "\u{10000}", "\u{1f600}", "\u{10ffff}", "\u{ff5e}", "\u{fffd}"],
	&["", "a", "aa", "ab", "a\u{e000}", "a\u{1f600}", "a\u{1f600}b", "a\u{e000}b", "b"],
	&["\r", "1", "\u{80}", "\u{f6}", "\u{20ac}", "\u{1f600}", "\u{fb33}"],
	&["e\u{301}", "\u{e9}", "e", "E", "\u{0}", "\u{1}", "\"", "\\", "/"],
	&["key", "Key", "KEY", "k", "sixteen-bytes-key", "seventeen-byte-key", "\u{d7ff}", "\u{e000}x", "\u{10000}x"],
	// ASCII keys of 15, 16 and 17 bytes (what fits two machine words) that differ in one bit of the last byte
	&["0123456789abcde`", "0123456789abcdep", "0123456789abcdea", "0123456789abcdeq", "0123456789abcde", "0123456789abcde`0", "0123456789abcde ", "0123456789abcde0", "0123456789abcde\u{10}"],
	// ... and of 7, 8 and 9 bytes (one machine word)
	&["0123456`", "0123456p", "0123456h", "0123456x", "0123456", "0123456`0", "0123456(", "01234568", "0123456\u{8}"],
];

fn gen_ijson_key(rng: &mut Rng) -> String {
	match rng.below(8) {
		0..=5 => {
			let pool = KEY_POOLS[rng.below(KEY_POOLS.len())];
			let mut k = pool[rng.below(pool.len())].to_string();
			if rng.chance(1, 4) {
				k.push_str(pool[rng.below(pool.len())]);
			}
			if rng.chance(1, 8) {
				// a long shared prefix in front of the deciding characters
				let n = rng.range(14, 40);
				k = format!("{}{}", "p".repeat(n), k);
			}
			k
		}
		_ => gen::gen_string(rng),
	}
}

/// An I-JSON value: no duplicate keys, numbers in double range.
pub fn gen_ijson(rng: &mut Rng, depth: usize) -> RVal {
	let leafy = depth >= 4 || (depth > 0 && rng.chance(2, 5));
	if leafy {
		return match rng.below(10) {
			0 => RVal::Null,
			1 => RVal::Bool(rng.chance(1, 2)),
			2..=6 => RVal::Num(gen_ijson_number(rng)),
			7..=8 => RVal::Str(gen::gen_string(rng)),
			_ => {
				if rng.chance(1, 2) {
					RVal::Arr(vec![])
				} else {
					RVal::Obj(vec![])
				}
			}
		};
	}
	let n = match rng.below(8) {
		0 => 0,
		1 => 1,
		2..=5 => rng.range(2, 5),
		_ => rng.range(5, 12),
	};
	if rng.chance(2, 5) {
		RVal::Arr((0..n).map(|_| gen_ijson(rng, depth + 1)).collect())
	} else {
		let mut entries: Vec<(String, RVal)> = Vec::new();
		for _ in 0..n {
			let mut k = gen_ijson_key(rng);
			let mut tries = 0;
			while entries.iter().any(|e| e.0 == k) {
				k = if tries < 4 { gen_ijson_key(rng) } else { format!("{}~{}", k, entries.len()) };
				tries += 1;
			}
			entries.push((k, gen_ijson(rng, depth + 1)));
		}
		RVal::Obj(entries)
	}
}

fn doc_of(v: &RVal) -> String {
	let mut s = String::new();
	pr::compact(v, &mut s);
	s
}

fn canon_real(v: &Value, how: usize) -> Result<(Value, String), String> {
	let mut v = v.clone();
	guard(move || {
		match how {
			0 => v.canonicalize(),
			1 => {
				let mut b = ryu_js::Buffer::new();
				v.canonicalize_with(&mut b)
			}
			_ => match &mut v {
				Value::Object(o) => o.canonicalize(),
				other => other.canonicalize(),
			},
		}
		let s = v.compact_print().to_string();
		(v, s)
	})
}

// ---------------------------------------------------------------------------
// C09
// ---------------------------------------------------------------------------

/// A wide object (n members) whose keys are in canonical order except for the
/// last `t` members, which belong at random places (inside the sorted part,
/// after it, before it). Nested one level down half of the time.
pub fn nearly_sorted_object(rng: &mut Rng, n: usize, t: usize) -> RVal {
	let mut keys: Vec<String> = (0..n).map(|j| if j % 9 == 4 { format!("k{:03}\u{e9}", j * 2) } else { format!("k{:03}", j * 2) }).collect();
	keys.sort_by(|a, b| a.encode_utf16().cmp(b.encode_utf16()));
	let mut entries: Vec<(String, RVal)> = keys.iter().enumerate().map(|(j, k)| (k.clone(), RVal::Num(j.to_string()))).collect();
	for x in 0..t {
		let k = match rng.below(4) {
			0 => format!("k{:03}", 2 * rng.below(n) + 1),
			1 => format!("k{:03}b{}", 2 * rng.below(n), x),
			2 => format!("zz{}", x),
			_ => format!("a{}", x),
		};
		if !entries.iter().any(|e| e.0 == k) {
			entries.push((k, RVal::Bool(x % 2 == 0)));
		}
	}
	let o = RVal::Obj(entries);
	if rng.chance(1, 2) {
		RVal::Arr(vec![RVal::Null, o])
	} else {
		o
	}
}

fn c09_one(rep: &mut Report, fam: &str, r: &RVal, tick: u64) {
	rep.evaluations += 1;
	let mut want = String::new();
	jcs::jcs(r, &mut want);
	let v = if tick % 3 == 0 { from_rval_push(r) } else { from_rval(r) };
	match canon_real(&v, (tick % 3) as usize) {
		Err(p) => rep.violation("C09:panic", format!("[{}] canonicalize panicked on {}: {}", fam, show(doc_of(r).as_bytes()), p), json!({"sub": "jcs", "value_compact": doc_of(r)})),
		Ok((_, got)) => {
			if got != want {
				let cat = classify_jcs_diff(r, &got, &want);
				rep.violation(
					format!("C09:{}", cat),
					format!("[{}] canonical form of {} is `{}`, RFC 8785 gives `{}`", fam, show(doc_of(r).as_bytes()), show(got.as_bytes()), show(want.as_bytes())),
					json!({"sub": "jcs", "value_compact": doc_of(r)}),
				);
			}
		}
	}
}

fn classify_jcs_diff(r: &RVal, got: &str, want: &str) -> &'static str {
	if let RVal::Num(_) = r {
		return "number";
	}
	// same multiset of characters -> an ordering problem
	let mut a: Vec<char> = got.chars().collect();
	let mut b: Vec<char> = want.chars().collect();
	a.sort();
	b.sort();
	if a == b {
		"member-order"
	} else {
		"content"
	}
}

pub fn run_c09(cfg: &Config) -> i32 {
	let started = Instant::now();
	let mut total = Report::new();
	match jcs::selftest() {
		Ok(n) => total.count("selftest_rfc8785_appendix_rows", n as u64),
		Err(m) => total.inconclusive.push(format!("oracle self-test failed: {}", m)),
	}
	let seed = cfg.seed;
	let shards = 64usize;
	// numbers alone
	let n_num = cfg.budget(600_000, 30_000_000);
	let rep = parallel(cfg.threads, shards, |i| {
		let mut rep = Report::new();
		let mut rng = Rng::new(seed).fork(0xc09 + i as u64);
		for k in 0..(n_num / shards as u64).max(1) {
			let s = gen_ijson_number(&mut rng);
			rep.distinct_bytes(s.as_bytes());
			let sig = s.bytes().filter(|b| b.is_ascii_digit()).count();
			rep.count(if sig >= 20 { "numbers_with_20_or_more_digits" } else { "numbers_with_fewer_than_20_digits" }, 1);
			c09_one(&mut rep, "numbers", &RVal::Num(s.clone()), k);
			if i == 0 && k < 3 {
				rep.sample(json!({"family": "numbers", "spelling": s, "rfc8785": jcs::canonical_number(&s)}));
			}
		}
		rep.count("family:numbers", (n_num / shards as u64).max(1));
		rep
	});
	total.merge(rep);
	// whole values
	let n_val = cfg.budget(150_000, 6_000_000);
	let rep = parallel(cfg.threads, shards, |i| {
		let mut rep = Report::new();
		let mut rng = Rng::new(seed).fork(0xc0a + i as u64);
		for k in 0..(n_val / shards as u64).max(1) {
			let r = gen_ijson(&mut rng, 0);
			rep.distinct_hash(fnv(doc_of(&r).as_bytes()));
			c09_one(&mut rep, "values", &r, k);
			if i == 0 && k < 2 {
				rep.sample(json!({"family": "values", "value_compact": show(doc_of(&r).as_bytes())}));
			}
		}
		rep.count("family:values", (n_val / shards as u64).max(1));
		rep
	});
	total.merge(rep);
	// values with a history: canonicalized, edited in place, canonicalized again (must equal the form of the edited content)
	let n_hist = cfg.budget(20_000, 1_000_000);
	let rep = parallel(cfg.threads, shards, |i| {
		let mut rep = Report::new();
		let mut rng = Rng::new(seed).fork(0xc09e + i as u64);
		for _ in 0..(n_hist / shards as u64).max(1) {
			c10_edit_sequences(&mut rep, &mut rng, "C09");
		}
		rep.count("family:values-with-a-history", (n_hist / shards as u64).max(1));
		rep
	});
	total.merge(rep);
	// deeply nested documents with non-canonical numbers and unordered keys at every level
	{
		let mut rep = Report::new();
		let mut rng = Rng::new(seed).fork(0xdee9);
		for k in 0..(if cfg.san { 4 } else { 60 }) {
			let depth = 100 + (k * 7) % 110;
			let inner = gen_ijson(&mut rng, 3);
			let r = deep_wrap(&mut rng, inner, depth);
			rep.max("deepest_canonicalized_nesting", depth as u64);
			rep.distinct_hash(fnv(doc_of(&r).as_bytes()));
			c09_one(&mut rep, "deep-documents", &r, k as u64);
		}
		rep.count("family:deep-documents", rep.evaluations);
		total.merge(rep);
	}
	// objects over the key pools: every subset of up to 4 keys of each pool, in every order
	let rep = parallel(cfg.threads, KEY_POOLS.len(), |p| {
		let mut rep = Report::new();
		let pool = KEY_POOLS[p];
		let n = pool.len();
		let mut cnt = 0u64;
		let mut idx = vec![0usize; 4];
		for len in 1..=4usize {
			// all sequences of distinct indices (permutations of subsets)
			fn rec(pool: &[&str], len: usize, cur: &mut Vec<usize>, rep: &mut Report, cnt: &mut u64) {
				if cur.len() == len {
					let r = RVal::Obj(cur.iter().enumerate().map(|(i, &j)| (pool[j].to_string(), RVal::Num(i.to_string()))).collect());
					c09_one(rep, "key-pool-permutations", &r, *cnt);
					*cnt += 1;
					return;
				}
				for j in 0..pool.len() {
					if !cur.contains(&j) {
						cur.push(j);
						rec(pool, len, cur, rep, cnt);
						cur.pop();
					}
				}
			}
			let mut cur = Vec::new();
			rec(pool, len, &mut cur, &mut rep, &mut cnt);
		}
		let _ = (&mut idx, n);
		rep.distinct_by_construction(cnt);
		rep.count("family:key-pool-permutations", cnt);
		rep
	});
	total.merge(rep);
	// wide objects in canonical order except for a few members at the end
	let rep = parallel(cfg.threads, 16, |i| {
		let mut rep = Report::new();
		let mut rng = Rng::new(seed).fork(0xc09e + i as u64);
		let mut cnt = 0u64;
		for n in (1..=(if cfg.san { 40usize } else { 96 })).filter(|n| n % 16 == i) {
			for t in 0..=9usize {
				for _ in 0..2 {
					let r = nearly_sorted_object(&mut rng, n, t);
					cnt += 1;
					c09_one(&mut rep, "nearly-sorted-wide-objects", &r, cnt);
				}
			}
		}
		rep.distinct_by_construction(cnt);
		rep.count("family:nearly-sorted-wide-objects", cnt);
		rep
	});
	total.merge(rep);
	// every depth 1..300 of containers of one kind around a value that needs work
	if !cfg!(miri) {
		let rep = parallel(cfg.threads, 12, |variant| {
			let mut rep = Report::new();
			let max = if cfg.san { 140 } else { 300 };
			for depth in 1..=max {
				let r = uniform_nest(depth, variant);
				c09_one(&mut rep, "uniform-nests-of-every-depth", &r, depth as u64);
				crate::oracle::rfc8259::drop_iter(r);
			}
			rep.distinct_by_construction(max as u64);
			rep.count("family:uniform-nests-of-every-depth", max as u64);
			rep
		});
		total.merge(rep);
	}
	// keys of 65,535 UTF-16 units and more that share a long prefix: the order is decided by a unit
	// beyond position 65,535, or by the length alone
	if !cfg!(miri) && !cfg.san {
		let rep = parallel(cfg.threads, 6, |i| {
			let mut rep = Report::new();
			let base: usize = [65_534usize, 65_535, 65_536, 65_537, 70_000, 131_072][i];
			let unit = ["a", "\u{e9}", "\u{10000}"][i % 3];
			let per = unit.encode_utf16().count();
			let head = unit.repeat(base / per);
			let keys: Vec<String> = vec![
				format!("{}b", head),
				format!("{}a", head),
				head.clone(),
				format!("{}a{}", head, "z"),
				format!("{}{}", head, '\u{10000}'),
				format!("{}{}", head, '\u{e000}'),
				"a".to_string(),
				unit.repeat(3),
				format!("{}{}", head, unit),
				"b".to_string(),
			];
			let r = RVal::Obj(keys.iter().enumerate().map(|(j, k)| (k.clone(), RVal::Num(j.to_string()))).collect());
			c09_one(&mut rep, "keys-beyond-65535-units", &r, i as u64);
			let r2 = RVal::Arr(vec![RVal::Obj(keys.iter().rev().enumerate().map(|(j, k)| (k.clone(), RVal::Num(format!("{}.0", j)))).collect())]);
			c09_one(&mut rep, "keys-beyond-65535-units", &r2, i as u64 + 1);
			rep.max("longest_key_utf16_units", (base + 2) as u64);
			rep.distinct_by_construction(2);
			rep.count("family:keys-beyond-65535-units", 2);
			rep
		});
		total.merge(rep);
	}
	// arrays whose neighbouring objects have the same key set in different orders (one of them already
	// canonical): whatever one object's canonicalization leaves behind must not reach its sibling
	{
		let rep = parallel(cfg.threads, 8, |i| {
			let mut rep = Report::new();
			let mut rng = Rng::new(seed).fork(0xc09a + i as u64);
			let mut cnt = 0u64;
			for n in (2..=(if cfg.san || cfg!(miri) { 12usize } else { 40 })).filter(|n| n % 8 == i) {
				let sorted: Vec<(String, RVal)> = (0..n).map(|j| (format!("k{:02}", j), RVal::Num(j.to_string()))).collect();
				let mut reversed = sorted.clone();
				reversed.reverse();
				let mut rotated = sorted.clone();
				rotated.rotate_left(1);
				let mut shuffled = sorted.clone();
				rng.shuffle(&mut shuffled);
				let mut shuffled2 = sorted.clone();
				rng.shuffle(&mut shuffled2);
				let o = |e: &Vec<(String, RVal)>| RVal::Obj(e.clone());
				for doc in [
					RVal::Arr(vec![o(&reversed), o(&sorted)]),
					RVal::Arr(vec![o(&sorted), o(&reversed)]),
					RVal::Arr(vec![o(&rotated), o(&sorted), o(&rotated), o(&sorted)]),
					RVal::Arr(vec![o(&shuffled), o(&sorted), o(&shuffled2), o(&shuffled)]),
					RVal::Arr(vec![o(&shuffled), o(&shuffled2), o(&sorted), o(&reversed)]),
					RVal::Obj(vec![("b".into(), o(&shuffled)), ("a".into(), o(&sorted)), ("c".into(), RVal::Arr(vec![o(&rotated), o(&sorted)]))]),
				] {
					cnt += 1;
					c09_one(&mut rep, "sibling-objects-with-one-key-set", &doc, cnt);
				}
			}
			rep.distinct_by_construction(cnt);
			rep.count("family:sibling-objects-with-one-key-set", cnt);
			rep
		});
		total.merge(rep);
	}
	// arrays of records (shared key sequence, optional trailing members, empty records)
	let n = cfg.budget(4_000, 200_000);
	let rep = parallel(cfg.threads, 16, |i| {
		let mut rep = Report::new();
		let mut rng = Rng::new(seed).fork(0xc09f + i as u64);
		for k in 0..(n / 16).max(1) {
			let r = gen::gen_records(&mut rng);
			rep.distinct_hash(fnv(doc_of(&r).as_bytes()));
			c09_one(&mut rep, "arrays-of-records", &r, k);
		}
		rep.count("family:arrays-of-records", (n / 16).max(1));
		rep
	});
	total.merge(rep);
	conclude(
		cfg,
		EvidenceMeta {
			id: "C09",
			rule: "a case is an I-JSON value (no duplicate keys, numbers finite as doubles) canonicalized through Value::canonicalize, canonicalize_with or Object::canonicalize and compact-printed; the bytes must equal the reference RFC 8785 implementation; numbers: 1-400 significant digits, exponents down to -340 and up to +300, bit-pattern doubles printed with 17-30 digits, exact midpoints between adjacent doubles and their neighbours in a far digit, subnormals, layout thresholds (1e21, 1e-6), integers around 2^53/2^63/2^64; keys from five pools where UTF-16 and code-point order differ, every ordered subset of up to 4 keys of each pool; distinct by hash / construction; non-trivial = every case",
			exhaustive: false,
			assumptions: vec![
				"str::parse::<f64> is correctly rounded (std); the ECMAScript digit generation is computed from the exact decimal expansion given by {:.800e} formatting; self-tested on the 24 finite rows of RFC 8785 appendix B and the section 3.2.3 example".into(),
			],
			extra: json!({}),
		},
		total,
		started,
		if cfg.san { 2_000 } else { 100_000 },
	)
	.exit
}

// ---------------------------------------------------------------------------
// C10
// ---------------------------------------------------------------------------

/// A tree in which numbers are exact decimals, so that respelling is exact.
#[derive(Clone, Debug)]
pub enum DVal {
	Null,
	Bool(bool),
	Num(Dec),
	Str(String),
	Arr(Vec<DVal>),
	Obj(Vec<(String, DVal)>),
}

fn gen_dval(rng: &mut Rng, depth: usize) -> DVal {
	let leafy = depth >= 4 || (depth > 0 && rng.chance(2, 5));
	if leafy {
		return match rng.below(10) {
			0 => DVal::Null,
			1 => DVal::Bool(rng.chance(1, 2)),
			2..=6 => DVal::Num(gen_dec(rng)),
			7..=8 => DVal::Str(gen::gen_string(rng)),
			_ => {
				if rng.chance(1, 2) {
					DVal::Arr(vec![])
				} else {
					DVal::Obj(vec![])
				}
			}
		};
	}
	let n = match rng.below(8) {
		0 => 0,
		1 => 1,
		2..=6 => rng.range(2, 4),
		_ => rng.range(5, 9),
	};
	if rng.chance(2, 5) {
		DVal::Arr((0..n).map(|_| gen_dval(rng, depth + 1)).collect())
	} else {
		let mut entries: Vec<(String, DVal)> = Vec::new();
		for _ in 0..n {
			let mut k = gen_ijson_key(rng);
			let mut tries = 0;
			while entries.iter().any(|e| e.0 == k) {
				k = if tries < 4 { gen_ijson_key(rng) } else { format!("{}~{}", k, entries.len()) };
				tries += 1;
			}
			entries.push((k, gen_dval(rng, depth + 1)));
		}
		DVal::Obj(entries)
	}
}

/// One concrete spelling of `d` as a reference tree; `permute` shuffles the
/// members of every object.
fn realize(rng: &mut Rng, d: &DVal, permute: bool) -> RVal {
	match d {
		DVal::Null => RVal::Null,
		DVal::Bool(b) => RVal::Bool(*b),
		DVal::Num(x) => RVal::Num(x.spell(rng)),
		DVal::Str(s) => RVal::Str(s.clone()),
		DVal::Arr(a) => RVal::Arr(a.iter().map(|x| realize(rng, x, permute)).collect()),
		DVal::Obj(o) => {
			let mut e: Vec<(String, RVal)> = o.iter().map(|(k, x)| (k.clone(), realize(rng, x, permute))).collect();
			if permute {
				rng.shuffle(&mut e);
			}
			RVal::Obj(e)
		}
	}
}

fn same_shape_and_doubles(before: &RVal, after: &RVal, path: &mut String) -> Result<(), String> {
	match (before, after) {
		(RVal::Null, RVal::Null) => Ok(()),
		(RVal::Bool(a), RVal::Bool(b)) if a == b => Ok(()),
		(RVal::Str(a), RVal::Str(b)) if a == b => Ok(()),
		(RVal::Num(a), RVal::Num(b)) => {
			let x = jcs::nearest_double(a);
			let y = jcs::nearest_double(b);
			if x == y {
				Ok(())
			} else {
				Err(format!("at {}: number {} (double {:e}) became {} (double {:e})", path, a, x, b, y))
			}
		}
		(RVal::Arr(a), RVal::Arr(b)) if a.len() == b.len() => {
			for (i, (x, y)) in a.iter().zip(b).enumerate() {
				let l = path.len();
				path.push_str(&format!("[{}]", i));
				same_shape_and_doubles(x, y, path)?;
				path.truncate(l);
			}
			Ok(())
		}
		(RVal::Obj(a), RVal::Obj(b)) if a.len() == b.len() => {
			for (k, x) in a {
				let Some((_, y)) = b.iter().find(|e| e.0 == *k) else {
					return Err(format!("at {}: key {:?} disappeared", path, k));
				};
				let l = path.len();
				path.push_str(&format!(".{:?}", k));
				same_shape_and_doubles(x, y, path)?;
				path.truncate(l);
			}
			Ok(())
		}
		_ => Err(format!("at {}: {:?} became {:?}", path, before.kind_name(), after.kind_name())),
	}
}

fn check_queryable(v: &Value) -> Result<u64, String> {
	let mut n = 0;
	match v {
		Value::Array(a) => {
			for x in a {
				n += check_queryable(x)?
			}
		}
		Value::Object(o) => {
			let m = Model {
				entries: o.iter().map(|e| (e.key.as_str().to_string(), e.value.clone())).collect(),
			};
			n += check_state(o, &m)?.queries;
			for e in o.iter() {
				n += check_queryable(&e.value)?
			}
		}
		_ => (),
	}
	Ok(n)
}

fn c10_one(rep: &mut Report, rng: &mut Rng, rd: &mut Reader, d: &DVal, tick: u64) {
	rep.evaluations += 1;
	let base = realize(rng, d, false);
	let case = json!({"sub": "canon-invariance", "value_compact": doc_of(&base)});
	let v0 = from_rval(&base);
	let (c1, s1) = match canon_real(&v0, (tick % 3) as usize) {
		Ok(x) => x,
		Err(p) => {
			rep.violation("C10:panic", format!("canonicalize panicked on {}: {}", show(doc_of(&base).as_bytes()), p), case);
			return;
		}
	};
	// idempotence (value and bytes)
	match canon_real(&c1, 0) {
		Ok((c2, s2)) => {
			if c2 != c1 || s2 != s1 {
				rep.violation("C10:not-idempotent", format!("canonicalizing twice changes `{}` into `{}`", show(s1.as_bytes()), show(s2.as_bytes())), case.clone());
			}
		}
		Err(p) => rep.violation("C10:panic", format!("second canonicalize panicked: {}", p), case.clone()),
	}
	// preservation
	let after = to_rval(&c1);
	if let Err(m) = same_shape_and_doubles(&base, &after, &mut String::from("$")) {
		rep.violation("C10:not-preserved", format!("canonicalizing {}: {}", show(doc_of(&base).as_bytes()), m), case.clone());
	}
	// queryability
	match guard(|| check_queryable(&c1)) {
		Ok(Ok(n)) => rep.count("queries_after_canonicalization", n),
		Ok(Err(m)) => rep.violation("C10:stale-index", format!("after canonicalizing {}: {}", show(doc_of(&base).as_bytes()), m), case.clone()),
		Err(p) => rep.violation("C10:panic", format!("queries after canonicalize panicked: {}", p), case.clone()),
	}
	// rewritings: permutation + respelling + re-escaping + whitespace, through text
	let n_rewrites = 5;
	for w in 0..n_rewrites {
		let alt = realize(rng, d, true);
		let style = WriteStyle {
			whitespace: rng.below(3) as u8,
			escapes: rng.below(2) as u8,
		};
		let text = gen::write_doc(rng, &alt, &style);
		rep.count("rewritings", 1);
		let parsed = match guard(|| Value::parse_str(&text)) {
			Ok(Ok((v, _))) => v,
			other => {
				// not C10's business unless the reference also accepts it
				if rd.read(text.as_bytes(), false).accepts(crate::oracle::rfc8259::Opts::STRICT) {
					rep.violation("C10:rewriting-rejected", format!("valid rewriting `{}` does not parse: {:?}", show(text.as_bytes()), other.map(|r| r.map(|_| ()))), case.clone());
				} else {
					rep.inconclusive.push(format!("generator produced an invalid rewriting: {}", show(text.as_bytes())));
				}
				continue;
			}
		};
		match canon_real(&parsed, (w % 3) as usize) {
			Ok((_, s)) => {
				if s != s1 {
					rep.violation(
						"C10:rewriting-changes-canonical-form",
						format!("`{}` and its rewriting `{}` canonicalize to `{}` and `{}`", show(doc_of(&base).as_bytes()), show(text.as_bytes()), show(s1.as_bytes()), show(s.as_bytes())),
						json!({"sub": "canon-pair", "a": doc_of(&base), "b": text}),
					);
				}
			}
			Err(p) => rep.violation("C10:panic", format!("canonicalize panicked on rewriting: {}", p), case.clone()),
		}
	}
}

/// All permutations of the members of small objects.
fn c10_permutations(rep: &mut Report, rng: &mut Rng) {
	let n = rng.range(2, 4);
	let mut entries: Vec<(String, DVal)> = Vec::new();
	while entries.len() < n {
		let k = gen_ijson_key(rng);
		if !entries.iter().any(|e| e.0 == k) {
			entries.push((k, if rng.chance(1, 2) { DVal::Num(gen_dec(rng)) } else { gen_dval(rng, 3) }));
		}
	}
	let base = RVal::Obj(entries.iter().map(|(k, v)| (k.clone(), realize(rng, v, false))).collect());
	let Ok((_, s1)) = canon_real(&from_rval(&base), 0) else { return };
	let mut idx: Vec<usize> = (0..n).collect();
	// Heap's algorithm
	let mut c = vec![0usize; n];
	let mut i = 0;
	let mut check = |idx: &Vec<usize>, rep: &mut Report| {
		let RVal::Obj(b) = &base else { return };
		let alt = RVal::Obj(idx.iter().map(|&j| b[j].clone()).collect());
		rep.count("member_permutations", 1);
		if let Ok((_, s)) = canon_real(&from_rval_push(&alt), 0) {
			if s != s1 {
				rep.violation(
					"C10:permutation-changes-canonical-form",
					format!("`{}` and the permutation `{}` canonicalize differently: `{}` vs `{}`", show(doc_of(&base).as_bytes()), show(doc_of(&alt).as_bytes()), show(s1.as_bytes()), show(s.as_bytes())),
					json!({"sub": "canon-pair", "a": doc_of(&base), "b": doc_of(&alt)}),
				);
			}
		}
	};
	check(&idx, rep);
	while i < n {
		if c[i] < i {
			if i % 2 == 0 {
				idx.swap(0, i)
			} else {
				idx.swap(c[i], i)
			}
			check(&idx, rep);
			c[i] += 1;
			i = 0;
		} else {
			c[i] = 0;
			i += 1;
		}
	}
	rep.evaluations += 1;
}

/// One random in-place edit of some object inside `v`, staying inside the
/// I-JSON domain (no duplicate keys); the new content is deliberately not in
/// canonical form. Returns false when `v` holds no object.
fn edit_in_place(rng: &mut Rng, v: &mut Value, counter: &mut u32) -> bool {
	// descend along a random path, remembering the last object seen
	fn pick<'a>(rng: &mut Rng, v: &'a mut Value, depth: usize) -> Option<&'a mut json_syntax::Object> {
		match v {
			Value::Array(a) => {
				if a.is_empty() {
					return None;
				}
				let i = rng.below(a.len());
				pick(rng, &mut a[i], depth + 1)
			}
			Value::Object(o) => {
				if !o.is_empty() && depth < 6 && rng.chance(1, 2) {
					let i = rng.below(o.len());
					let has_inner = matches!(o.entries()[i].value, Value::Array(_) | Value::Object(_));
					if has_inner {
						let key = o.entries()[i].key.clone();
						let inner = o.get_unique_mut(key.as_str()).ok().flatten();
						if let Some(inner) = inner {
							// borrow dance: try the child, fall back to this object
							let p = inner as *mut Value;
							// SAFETY (harness only): `p` points into `o`, which outlives this call; used once.
							if let Some(x) = pick(rng, unsafe { &mut *p }, depth + 1) {
								return Some(x);
							}
						}
					}
				}
				Some(o)
			}
			_ => None,
		}
	}
	let Some(o) = pick(rng, v, 0) else { return false };
	*counter += 1;
	let fresh_key = format!("\u{10000}new{}", counter);
	let noncanon = |rng: &mut Rng| -> Value {
		match rng.below(4) {
			0 => Value::Number("2.50".parse().unwrap()),
			1 => Value::Number("1.0E2".parse().unwrap()),
			2 => Value::Number("-0.0".parse().unwrap()),
			_ => {
				let mut inner = json_syntax::Object::new();
				inner.push("\u{e000}".into(), Value::Number("1.0".parse().unwrap()));
				inner.push("\u{1f600}".into(), Value::Array(vec![Value::Number("5E-1".parse().unwrap())]));
				inner.push("a".into(), Value::Null);
				Value::Object(inner)
			}
		}
	};
	let existing: Option<String> = if o.is_empty() { None } else { Some(o.entries()[rng.below(o.len())].key.as_str().to_string()) };
	match (rng.below(9), existing) {
		(0, _) | (_, None) => {
			o.push_front(fresh_key.as_str().into(), noncanon(rng));
		}
		(1, _) => {
			o.push(fresh_key.as_str().into(), noncanon(rng));
		}
		(2, Some(k)) => {
			let nv = noncanon(rng);
			*o.get_mut_or_insert_with(k.as_str(), || Value::Null) = nv;
		}
		(3, Some(_)) => {
			let nv = noncanon(rng);
			if let Some((_, slot)) = o.iter_mut().next() {
				*slot = nv;
			}
		}
		(4, Some(k)) => {
			let _ = o.insert(k.as_str().into(), noncanon(rng));
		}
		(5, Some(_)) => {
			let i = rng.below(o.len());
			o.remove_at(i);
		}
		(6, Some(_)) => {
			let _ = o.insert_front(fresh_key.as_str().into(), noncanon(rng));
		}
		(7, Some(k)) => {
			let nv = noncanon(rng);
			if let Some(slot) = o.get_mut(k.as_str()).next() {
				*slot = nv;
			}
		}
		(_, Some(k)) => {
			let nv = noncanon(rng);
			if let Ok(Some(slot)) = o.get_unique_mut(k.as_str()) {
				*slot = nv;
			}
		}
	}
	true
}

/// canonicalize, edit in place, canonicalize again: the result must be the
/// canonical form of the edited content (no memo of a previous pass may survive an edit).
fn c10_edit_sequences(rep: &mut Report, rng: &mut Rng, id: &str) {
	let r = gen_ijson(rng, if cfg!(miri) { 3 } else { 0 });
	let mut v = from_rval(&r);
	let mut counter = 0u32;
	let mut log: Vec<String> = vec![doc_of(&r)];
	for step in 0..rng.range(1, 4) {
		if guard(|| v.canonicalize()).is_err() {
			return;
		}
		let edits = rng.range(1, 3);
		for _ in 0..edits {
			if !edit_in_place(rng, &mut v, &mut counter) {
				return;
			}
		}
		let content = to_rval(&v);
		log.push(doc_of(&content));
		let mut want = String::new();
		jcs::jcs(&content, &mut want);
		rep.evaluations += 1;
		rep.count("canonicalize_edit_canonicalize_steps", 1);
		match canon_real(&v, step % 3) {
			Ok((c, got)) => {
				if got != want {
					rep.violation(
						format!("{}:stale-after-edit", id),
						format!("after canonicalize + in-place edits the content is {} ; canonicalizing it gives `{}`, expected `{}`", show(doc_of(&content).as_bytes()), show(got.as_bytes()), show(want.as_bytes())),
						json!({"sub": "jcs", "value_compact": doc_of(&content), "history": log}),
					);
					return;
				}
				if let Ok(Err(m)) = guard(|| check_queryable(&c)) {
					rep.violation("C10:stale-index", format!("after canonicalize + edits + canonicalize of {}: {}", show(doc_of(&content).as_bytes()), m), json!({"sub": "canon-invariance", "value_compact": doc_of(&content)}));
					return;
				}
				v = c;
			}
			Err(p) => {
				rep.violation("C10:panic", format!("canonicalize panicked after edits: {}", p), json!({"sub": "jcs", "value_compact": doc_of(&content)}));
				return;
			}
		}
	}
	rep.distinct_hash(fnv(log.join("|").as_bytes()));
}

/// A non-canonical document wrapped in `depth` levels of containers.
/// `depth` containers of one kind around a value that needs work (members out
/// of order, numbers not in canonical spelling): consecutive arrays with one or
/// three items, or consecutive one- or two-member objects.
pub fn uniform_nest(depth: usize, variant: usize) -> RVal {
	let needs_work = RVal::Obj(vec![("z".into(), RVal::Num("1.0E1".into())), ("\u{10000}".into(), RVal::Arr(vec![RVal::Num("0.50".into())])), ("\u{e000}".into(), RVal::Null), ("a".into(), RVal::Num("100e-2".into()))]);
	let mut v = match variant % 3 {
		0 => needs_work,
		1 => RVal::Arr(vec![RVal::Num("2.0".into()), needs_work]),
		_ => RVal::Num("25.0e-1".into()),
	};
	for _ in 0..depth {
		v = match variant / 3 {
			0 => RVal::Arr(vec![v]),
			1 => RVal::Arr(vec![RVal::Num("1e0".into()), v, RVal::Str("s".into())]),
			2 => RVal::Obj(vec![("k".into(), v)]),
			_ => RVal::Obj(vec![("z".into(), RVal::Num("1.50".into())), ("k".into(), v)]),
		};
	}
	v
}

fn deep_wrap(rng: &mut Rng, inner: RVal, depth: usize) -> RVal {
	let mut v = inner;
	for d in 0..depth {
		v = match (d + rng.below(2)) % 3 {
			0 => RVal::Arr(vec![RVal::Num("1.0".into()), v, RVal::Num("2.50e1".into())]),
			1 => RVal::Obj(vec![("\u{1f600}".into(), RVal::Num("1E2".into())), ("\u{e000}".into(), v), ("a".into(), RVal::Num("5E-1".into()))]),
			_ => RVal::Arr(vec![v]),
		};
	}
	v
}

pub fn run_c10(cfg: &Config) -> i32 {
	let started = Instant::now();
	let mut total = Report::new();
	if cfg!(miri) {
		total.note("oracle self-tests skipped under Miri (run by the native pass of the same invocation)");
	} else if let Err(m) = jcs::selftest() {
		total.inconclusive.push(format!("oracle self-test failed: {}", m))
	}
	let seed = cfg.seed;
	// every shard runs at least one case of each family: fewer shards under the interpreter
	let shards = if cfg!(miri) { 6usize } else { 64usize };
	let n = cfg.budget(150_000, 4_000_000);
	let rep = parallel(cfg.threads, shards, |i| {
		let mut rep = Report::new();
		let mut rng = Rng::new(seed).fork(0xc10 + i as u64);
		let mut rd = Reader::new();
		for k in 0..(n / shards as u64).max(1) {
			// under the interpreter: documents of a handful of nodes
			let d = gen_dval(&mut rng, if cfg!(miri) { 3 } else { 0 });
			let probe = realize(&mut rng.clone(), &d, false);
			rep.distinct_hash(fnv(doc_of(&probe).as_bytes()));
			c10_one(&mut rep, &mut rng, &mut rd, &d, k);
			if k % 4 == 0 {
				c10_permutations(&mut rep, &mut rng);
			}
			if i == 0 && k < 2 {
				rep.sample(json!({"family": "documents-and-rewritings", "value_compact": show(doc_of(&probe).as_bytes())}));
			}
		}
		rep
	});
	total.merge(rep);

	// members with EQUAL values under every pair and triple of keys of each pool, in every order (the
	// order of the members may then be decided by nothing but the keys), at the top and nested
	{
		let pools: Vec<usize> = if cfg!(miri) { vec![7] } else { (0..KEY_POOLS.len()).collect() };
		let rep = parallel(cfg.threads, pools.len(), |pi| {
			let mut rep = Report::new();
			let pool = KEY_POOLS[pools[pi]];
			let n = pool.len();
			let vals = ["null", "0", "\"s\"", "[]", "{\"a\":1}"];
			let mut cnt = 0u64;
			for a in 0..n {
				for b in (a + 1)..n {
					for c in b..n {
						if cfg!(miri) && (a + b + c) % 3 != 0 {
							continue;
						}
						// c == b: the pair alone
						let keys: Vec<&str> = if c == b { vec![pool[a], pool[b]] } else { vec![pool[a], pool[b], pool[c]] };
						let val = vals[(a + b + c) % vals.len()];
						let doc_of_order = |order: &[usize], nested: bool| {
							let body: Vec<String> = order.iter().map(|&j| {
								let mut lit = String::new();
								crate::oracle::print::write_string(keys[j], &mut lit);
								format!("{}:{}", lit, val)
							}).collect();
							if nested { format!("[{{\"x\":{{{}}}}}]", body.join(",")) } else { format!("{{{}}}", body.join(",")) }
						};
						let orders: Vec<Vec<usize>> = if keys.len() == 2 { vec![vec![0, 1], vec![1, 0]] } else { vec![vec![0, 1, 2], vec![0, 2, 1], vec![1, 0, 2], vec![1, 2, 0], vec![2, 0, 1], vec![2, 1, 0]] };
						for nested in [false, true] {
							let mut first: Option<(String, String)> = None;
							for (oi, order) in orders.iter().enumerate() {
								let doc = doc_of_order(order, nested);
								rep.evaluations += 1;
								cnt += 1;
								let out = guard(|| Value::parse_str(&doc).map(|(v, _)| v)).ok().and_then(|r| r.ok()).map(|v| canon_real(&v, oi % 3));
								match out {
									Some(Ok((_, s))) => match &first {
										None => first = Some((doc.clone(), s)),
										Some((d0, s0)) => {
											if *s0 != s {
												rep.violation(
													"C10:member-order-changes-canonical-form",
													format!("`{}` and `{}` (same members in another order) canonicalize to `{}` and `{}`", show(d0.as_bytes()), show(doc.as_bytes()), show(s0.as_bytes()), show(s.as_bytes())),
													json!({"sub": "canon-pair", "a": d0, "b": doc}),
												);
											}
										}
									},
									Some(Err(p)) => rep.violation("C10:panic", format!("canonicalize panicked on `{}`: {}", show(doc.as_bytes()), p), json!({"sub": "canon-pair", "a": doc, "b": doc})),
									None => rep.inconclusive.push(format!("equal-values family: `{}` does not parse", show(doc.as_bytes()))),
								}
							}
						}
					}
				}
			}
			rep.distinct_by_construction(cnt);
			rep.count("family:equal-valued-members-over-key-pools", cnt);
			rep
		});
		total.merge(rep);
	}

	// arrays (and objects) whose neighbouring members are number literals that resemble each other: a
	// literal next to the same text with one more zero at the end of its exponent, of its fraction or of
	// its integer part, with the other exponent marker, and next to its prefixes that are numbers. After
	// canonicalization every member must still denote its own double, twice gives the same.
	if !cfg!(miri) {
		let mut rep = Report::new();
		let mut rd = Reader::new();
		let bases = ["1.5e1", "1.5e+21", "2.50e-3", "10.0e10", "9.1E0", "1.25e100", "-4.5e2", "0.5e-10", "123.456e7", "1.0e0"];
		for base in bases {
			let (mant, exp) = base.split_at(base.find(|c| c == 'e' || c == 'E').unwrap());
			let mut rel: Vec<String> = vec![
				base.to_string(),
				format!("{}0", base),
				format!("{}00", base),
				format!("{}0{}", mant, exp),
				format!("{}00{}", mant, exp),
				format!("{}{}", mant, exp.replace('e', "E").replace("E+", "e+")),
				mant.to_string(),
				format!("{}0", mant),
				format!("{}{}", mant.replace('.', "0."), exp),
			];
			for l in 1..base.len() {
				if matches!(rd.read(base[..l].as_bytes(), true).root, Some(RVal::Num(_))) {
					rel.push(base[..l].to_string());
				}
			}
			rel.retain(|x| matches!(rd.read(x.as_bytes(), true).root, Some(RVal::Num(_))) && x.parse::<f64>().map(|f| f.is_finite()).unwrap_or(false));
			let mut docs: Vec<String> = Vec::new();
			for a in &rel {
				for b in &rel {
					docs.push(format!("[{},{}]", a, b));
					docs.push(format!("[{},null,{},\"s\",{}]", a, b, a));
				}
				docs.push(format!("{{\"a\":{},\"b\":{}}}", a, rel[0]));
			}
			docs.push(format!("[{}]", rel.join(",")));
			for doc in docs {
				rep.evaluations += 1;
				rep.distinct_by_construction(1);
				rep.count("family:neighbouring-number-literals-that-resemble-each-other", 1);
				let case = json!({"sub": "canon-invariance", "value_compact": doc});
				let Ok(Ok((v, _))) = guard(|| Value::parse_str(&doc)) else {
					rep.inconclusive.push(format!("resembling-numbers family: `{}` does not parse", doc));
					continue;
				};
				let before = to_rval(&v);
				match canon_real(&v, rep.evaluations as usize % 3) {
					Ok((c1, s1)) => {
						if let Err(m) = same_shape_and_doubles(&before, &to_rval(&c1), &mut String::from("$")) {
							rep.violation("C10:not-preserved", format!("canonicalizing {}: {}", doc, m), case.clone());
						}
						match canon_real(&c1, 0) {
							Ok((_, s2)) if s2 == s1 => (),
							Ok((_, s2)) => rep.violation("C10:not-idempotent", format!("canonicalizing {} twice changes `{}` into `{}`", doc, s1, s2), case.clone()),
							Err(p) => rep.violation("C10:panic", format!("second canonicalize panicked on {}: {}", doc, p), case.clone()),
						}
					}
					Err(p) => rep.violation("C10:panic", format!("canonicalize panicked on {}: {}", doc, p), case),
				}
			}
		}
		total.merge(rep);
	}
	if cfg!(miri) {
		eprintln!("miri progress: C10 documents and rewritings done after {:.0} s", started.elapsed().as_secs_f64());
	}
	// canonicalize / edit in place / canonicalize again, and deeply nested documents
	let n = cfg.budget(25_000, 2_000_000);
	let rep = parallel(cfg.threads, shards, |i| {
		let mut rep = Report::new();
		let mut rng = Rng::new(seed).fork(0xc12e + i as u64);
		let mut rd = Reader::new();
		for k in 0..(n / shards as u64).max(1) {
			c10_edit_sequences(&mut rep, &mut rng, "C10");
			if k % 64 == 0 {
				// depth 100..200: every level holds non-canonical numbers and keys out of order
				// (under the interpreter: 10..20 levels, the reference rendering of hundreds of numbers is too slow there)
				let depth = if cfg!(miri) { rng.range(4, 8) } else { rng.range(100, 200) };
				let inner = gen_ijson(&mut rng, if cfg!(miri) { 4 } else { 3 });
				let r = deep_wrap(&mut rng, inner, depth);
				rep.max("deepest_canonicalized_nesting", depth as u64);
				let d = DVal::Null;
				let _ = d;
				// C09-style equality with the oracle plus the C10 monitors on the deep document
				rep.evaluations += 1;
				let mut want = String::new();
				jcs::jcs(&r, &mut want);
				match canon_real(&from_rval(&r), (k % 3) as usize) {
					Ok((c, got)) => {
						if got != want {
							rep.violation("C10:deep-document", format!("a document nested {} levels canonicalizes to `{}`, expected `{}`", depth, show(got.as_bytes()), show(want.as_bytes())), json!({"sub": "jcs", "value_compact": doc_of(&r)}));
						}
						if let Ok(Err(m)) = guard(|| check_queryable(&c)) {
							rep.violation("C10:stale-index", format!("after canonicalizing a document nested {} levels: {}", depth, m), json!({"sub": "canon-invariance", "value_compact": doc_of(&r)}));
						}
					}
					Err(p) => rep.violation("C10:panic", format!("canonicalize panicked on a document nested {} levels: {}", depth, p), json!({"sub": "jcs", "value_compact": doc_of(&r)})),
				}
				let _ = &mut rd;
			}
		}
		rep
	});
	total.merge(rep);
	if cfg!(miri) {
		eprintln!("miri progress: C10 edit sequences and deep documents done after {:.0} s", started.elapsed().as_secs_f64());
	}
	// wide objects in canonical order except for a few members at the end, against shuffled copies
	let rep = parallel(cfg.threads, if cfg!(miri) { 2 } else { 16 }, |i| {
		let mut rep = Report::new();
		let mut rng = Rng::new(seed).fork(0xc10e + i as u64);
		let sizes: Vec<usize> = if cfg!(miri) { vec![34] } else { (1..=(if cfg.san { 40usize } else { 96 })).filter(|n| n % 16 == i).collect() };
		for n in sizes {
			for t in 0..=9usize {
				let r = if t == 9 { gen::gen_records(&mut rng) } else { nearly_sorted_object(&mut rng, n, t) };
				// every object of the value (one level down in arrays) shuffled or rotated
				let shuffle = |rng: &mut Rng, r: &RVal| -> RVal {
					let mut c = r.clone();
					let rot = rng.chance(1, 3);
					let mut mix = |o: &mut RVal| {
						if let RVal::Obj(e) = o {
							if rot && e.len() > 1 {
								let k = 1 + rng.below(e.len() - 1);
								e.rotate_left(k);
							} else {
								rng.shuffle(e);
							}
						}
					};
					match &mut c {
						RVal::Arr(a) => {
							for x in a.iter_mut() {
								mix(x)
							}
						}
						other => mix(other),
					}
					c
				};
				let alt = shuffle(&mut rng, &r);
				rep.evaluations += 1;
				rep.distinct_by_construction(1);
				rep.count("nearly_sorted_wide_objects", 1);
				let case = json!({"sub": "canon-pair", "a": doc_of(&r), "b": doc_of(&alt)});
				match (canon_real(&from_rval(&r), t % 3), canon_real(&from_rval_push(&alt), 0)) {
					(Ok((c1, s1)), Ok((c2, s2))) => {
						if let Ok(Err(m)) = guard(|| check_queryable(&c2)) {
							rep.violation("C10:stale-index", format!("after canonicalizing a shuffled object of {} members: {}", n, m), case.clone());
						}
						if s1 != s2 {
							rep.violation("C10:permutation-changes-canonical-form", format!("an object of {} members sorted except for its last {} and a shuffled copy canonicalize differently: `{}` vs `{}`", n, t, show(s1.as_bytes()), show(s2.as_bytes())), case.clone());
						}
						match canon_real(&c1, 0) {
							Ok((_, s3)) if s3 == s1 => (),
							Ok((_, s3)) => rep.violation("C10:not-idempotent", format!("canonicalizing twice changes `{}` into `{}`", show(s1.as_bytes()), show(s3.as_bytes())), case.clone()),
							Err(p) => rep.violation("C10:panic", format!("second canonicalization panicked: {}", p), case.clone()),
						}
						if let Ok(Err(m)) = guard(|| check_queryable(&c1)) {
							rep.violation("C10:stale-index", format!("after canonicalizing a nearly sorted object of {} members: {}", n, m), case.clone());
						}
					}
					(a, b) => rep.violation("C10:panic", format!("canonicalize panicked: {:?} {:?}", a.err(), b.err()), case),
				}
			}
		}
		rep
	});
	total.merge(rep);
	// numerically equal spellings of single numbers (including the zeros)
	let n = cfg.budget(100_000, 5_000_000);
	let rep = parallel(cfg.threads, shards, |i| {
		let mut rep = Report::new();
		let mut rng = Rng::new(seed).fork(0xc11 + i as u64);
		for _ in 0..(n / shards as u64).max(1) {
			let mut d = gen_dec(&mut rng);
			let is_zero = d.digits.bytes().all(|b| b == b'0');
			let a = d.spell(&mut rng);
			if is_zero {
				d.neg = !d.neg; // -0 and 0 are numerically equal
			}
			let b = d.spell(&mut rng);
			rep.evaluations += 1;
			rep.distinct_bytes(format!("{}|{}", a, b).as_bytes());
			rep.count("number_respellings", 1);
			let ca = canon_real(&from_rval(&RVal::Num(a.clone())), 0);
			let cb = canon_real(&from_rval(&RVal::Num(b.clone())), 1);
			match (ca, cb) {
				(Ok((_, x)), Ok((_, y))) => {
					if x != y {
						rep.violation(
							"C10:respelling-changes-canonical-form",
							format!("equal numbers {} and {} canonicalize to {} and {}", a, b, x, y),
							json!({"sub": "canon-pair", "a": a, "b": b}),
						);
					}
				}
				(x, y) => rep.violation("C10:panic", format!("canonicalize panicked on {} / {}: {:?} {:?}", a, b, x.err(), y.err()), json!({"sub": "canon-pair", "a": a, "b": b})),
			}
		}
		rep
	});
	total.merge(rep);
	if cfg!(miri) {
		eprintln!("miri progress: C10 number respellings done after {:.0} s", started.elapsed().as_secs_f64());
	}
	conclude(
		cfg,
		EvidenceMeta {
			id: "C10",
			rule: "a case is an I-JSON document (numbers held as exact decimals) with 5 meaning-preserving rewritings each (random permutation of every object's members, exact respelling of every number by moving the decimal point / exponent, trailing fractional zeros, e/E, +, alternative escapes of string characters, whitespace), every permutation of the members of small objects, and pairs of numerically equal number spellings (incl. -0/0), canonicalize / in-place edit (push_front, insert, writes through every kind of handed-out reference, removals) / canonicalize sequences, and documents nested 100-200 levels with non-canonical content at every level; checked: idempotence (value and bytes), byte-identical canonical output of every rewriting, preservation (shape, strings, literals, key sets, each number's double), and full queryability + index invariant of every object of the result; distinct by hash; non-trivial = every case",
			exhaustive: false,
			assumptions: vec!["respellings are produced from an exact decimal (digit string, power of ten), so they denote the same real number by construction".into()],
			extra: json!({}),
		},
		total,
		started,
		if cfg.san { 50 } else { 50_000 },
	)
	.exit
}

pub fn replay_case(id: &str, case: &serde_json::Value) -> Option<Vec<String>> {
	let mut rd = Reader::new();
	let mut rep = Report::new();
	match case.get("sub")?.as_str()? {
		"jcs" => {
			let r = rd.read(case.get("value_compact")?.as_str()?.as_bytes(), true).root?;
			for t in 0..3 {
				c09_one(&mut rep, "replay", &r, t);
			}
		}
		"canon-pair" => {
			let a = rd.read(case.get("a")?.as_str()?.as_bytes(), true).root?;
			let b = rd.read(case.get("b")?.as_str()?.as_bytes(), true).root?;
			let ca = canon_real(&from_rval(&a), 0);
			let cb = canon_real(&from_rval(&b), 0);
			match (ca, cb) {
				(Ok((_, x)), Ok((_, y))) if x == y => (),
				(x, y) => rep.violation(format!("{}:pair", id), format!("canonical forms differ: {:?} vs {:?}", x.map(|p| p.1), y.map(|p| p.1)), case.clone()),
			}
		}
		"canon-invariance" => {
			let r = rd.read(case.get("value_compact")?.as_str()?.as_bytes(), true).root?;
			let v = from_rval(&r);
			match canon_real(&v, 0) {
				Ok((c1, s1)) => {
					if let Ok((c2, s2)) = canon_real(&c1, 0) {
						if c2 != c1 || s2 != s1 {
							rep.violation("C10:not-idempotent", "not idempotent".to_string(), case.clone());
						}
					}
					if let Err(m) = same_shape_and_doubles(&r, &to_rval(&c1), &mut String::from("$")) {
						rep.violation("C10:not-preserved", m, case.clone());
					}
					if let Ok(Err(m)) = guard(|| check_queryable(&c1)) {
						rep.violation("C10:stale-index", m, case.clone());
					}
				}
				Err(p) => rep.violation("C10:panic", p, case.clone()),
			}
		}
		_ => return None,
	}
	Some(rep.violations.iter().map(|v| format!("[{}] {}", v.signature, v.what)).collect())
}
