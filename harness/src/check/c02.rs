//! C02 — faithful decoding: the parsed value is the document's abstract content.

use super::parsefam::{self as pf, Flags};
use crate::monitor::{conclude, Config, EvidenceMeta, Report, Tier};
use serde_json::json;
use std::time::Instant;

pub fn run(cfg: &Config) -> i32 {
	let started = Instant::now();
	let thorough = cfg.tier == Tier::Thorough;
	let flags = Flags {
		c02: true,
		..Default::default()
	};
	let mut total = Report::new();
	if cfg!(miri) {
		total.note("oracle self-tests skipped under Miri (run by the native pass of the same invocation)");
	} else if let Err(m) = pf::selftest_reference(cfg) {
		total.inconclusive.push(format!("oracle self-test failed: {}", m))
	}
	let mut add = |total: &mut Report, (r, _): (Report, Vec<u8>)| total.merge(r);
	let mut exhaustive_tables = false;
	if cfg.san {
		// reduced workload for Miri / ASan: numbers and strings around the 16-byte inline capacity
		add(&mut total, pf::fam_generated(cfg, flags, cfg.budget(300_000, 8_000_000), false));
		add(&mut total, pf::fam_valid_token_docs(cfg, flags, 4));
	} else {
		add(&mut total, pf::fam_escape_tables(cfg, flags));
		exhaustive_tables = true;
		add(&mut total, pf::fam_valid_token_docs(cfg, flags, if thorough { 8 } else { 7 }));
		add(&mut total, pf::fam_generated(cfg, flags, cfg.budget(300_000, 8_000_000), false));
		add(&mut total, pf::fam_sigma(cfg, flags, "sigma-c-strings", &crate::gen::SIGMA_C, if thorough { 5 } else { 4 }));
		add(&mut total, pf::fam_surrogates(cfg, flags, if thorough { 5 } else { 4 }));
		add(&mut total, pf::fam_large(cfg, flags, if thorough { 64 } else { 16 }, if thorough { 100_000 } else { 20_000 }));
		add(&mut total, pf::fam_block_boundaries(cfg, flags));
		add(&mut total, pf::fam_long_strings(cfg, flags, if cfg.san { 300 } else { 2300 }));
		add(&mut total, pf::fam_long_lexemes(cfg, flags, if cfg.san { 200 } else { 1200 }));
		add(&mut total, pf::fam_escape_runs(cfg, flags, if cfg.san { 40 } else { 72 }));
		add(&mut total, pf::fam_nesting_patterns(cfg, flags, if cfg.san { 70 } else { 200 }));
		add(&mut total, pf::fam_typed_impls(cfg, flags, if cfg.san { 3 } else { cfg.tier.pick(5, 6) as usize }));
	}
	let extra = json!({
		"escape_tables_swept_completely": exhaustive_tables,
		"explanation": "escape-tables family: all 65,536 \\uXXXX code units in three hex-case styles, all 1,048,576 high/low surrogate pairs, all 1,112,064 scalar values raw (as value and as key), all 128 backslash+ASCII pairs; the remaining families are bounded-exhaustive or sampled",
	});
	conclude(
		cfg,
		EvidenceMeta {
			id: "C02",
			rule: "each accepted document is decoded independently by the reference reader and compared node by node (strings, number spelling, entry order, duplicates) plus every key lookup against a linear scan; escape tables are swept completely; small documents are enumerated by walking the grammar; larger ones are generated from the seed; non-trivial = accepted document with at least one fragment; enumerated cases distinct by construction, generated ones by hash",
			exhaustive: false,
			assumptions: vec![
				"the reference decoder (harness/src/oracle/rfc8259.rs) implements RFC 8259 section 7 correctly; the generator-side expectation (documents are written from a known tree) cross-checks it".into(),
			],
			extra,
		},
		total,
		started,
		if cfg.san { 20 } else { 1_000_000 },
	)
	.exit
}
