//! C05 — code map: one exact span and volume per fragment, in pre-order.

use super::parsefam::{self as pf, Flags};
use crate::monitor::{conclude, Config, EvidenceMeta, Report, Tier};
use serde_json::json;
use std::time::Instant;

pub fn run(cfg: &Config) -> i32 {
	let started = Instant::now();
	let thorough = cfg.tier == Tier::Thorough && !cfg.san;
	let small = if cfg.san { 1 } else { 0 };
	let flags = Flags {
		c05: true,
		..Default::default()
	};
	let mut total = Report::new();
	if let Err(m) = pf::selftest_reference(cfg) {
		total.inconclusive.push(format!("oracle self-test failed: {}", m))
	}
	let mut add = |total: &mut Report, (r, _): (Report, Vec<u8>)| total.merge(r);
	add(&mut total, pf::fam_valid_token_docs(cfg, flags, if thorough { 8 } else { 7 }));
	add(&mut total, pf::fam_generated(cfg, flags, cfg.budget(300_000, 10_000_000), false));
	add(&mut total, pf::fam_sigma(cfg, flags, "sigma-c-strings", &crate::gen::SIGMA_C, if thorough { 5 } else { 4 - small }));
	add(&mut total, pf::fam_sigma(cfg, flags, "sigma-t-token-sequences", &crate::gen::SIGMA_T, if thorough { 6 } else { 5 - small }));
	add(&mut total, pf::fam_surrogates(cfg, flags, 3));
	add(&mut total, pf::fam_large(cfg, flags, if thorough { 64 } else { 16 }, if thorough { 100_000 } else { 20_000 }));
	add(&mut total, pf::fam_block_boundaries(cfg, flags));
	add(&mut total, pf::fam_long_strings(cfg, flags, if cfg.san { 300 } else { 2300 }));
	add(&mut total, pf::fam_long_lexemes(cfg, flags, if cfg.san { 200 } else { 1200 }));
	add(&mut total, pf::fam_escape_runs(cfg, flags, if cfg.san { 40 } else { 72 }));
	add(&mut total, pf::fam_nesting_patterns(cfg, flags, if cfg.san { 70 } else { 200 }));
	add(&mut total, pf::fam_typed_impls(cfg, flags, if cfg.san { 3 } else { cfg.tier.pick(5, 6) as usize }));
	conclude(
		cfg,
		EvidenceMeta {
			id: "C05",
			rule: "for every accepted document the code map returned by parse_slice_with / parse_str (and parse_utf8, parse_infallible on a sample) is compared entry by entry with the reference fragment list (kind, byte span, volume) and aligned with Value::traverse; documents: every valid token sequence up to the bound in three whitespace layouts, all strings over the two alphabets up to the bound, generated documents with multi-byte characters, escapes, empty and nested containers; non-trivial = accepted document; distinct by construction / by hash",
			exhaustive: false,
			assumptions: vec!["the reference tokenizer computes byte offsets itself (harness/src/oracle/rfc8259.rs); self-tested on a hand-computed document".into()],
			extra: json!({}),
		},
		total,
		started,
		if cfg.san { 50_000 } else { 500_000 },
	)
	.exit
}
