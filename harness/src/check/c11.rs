//! C11 — code-map offsets navigate correctly: mapped iterators, key-based
//! mapped lookups, fragment index lookup, volume/count, TryFromJson errors.

use crate::gen::{self, ValueParams, WriteStyle};
use crate::monitor::{conclude, fnv, guard, parallel, show, Config, EvidenceMeta, Report, Tier};
use crate::oracle::print as pr;
use crate::oracle::rfc8259::{Frag, FragKind, Opts, RVal, Reader};
use crate::rng::Rng;
use json_syntax::array::JsonArray;
use json_syntax::code_map::Mapped;
use json_syntax::{CodeMap, FragmentRef, Kind, Parse, TryFromJson, Unexpected, Value};
use serde_json::json;
use std::collections::BTreeMap;
use std::time::Instant;

fn doc_of(v: &RVal) -> String {
	let mut s = String::new();
	pr::compact(v, &mut s);
	s
}

struct Ctx<'a> {
	cm: &'a CodeMap,
	frags: &'a [Frag],
	checks: u64,
}

impl<'a> Ctx<'a> {
	/// The code-map entry at `offset` must be the reference fragment `want`
	/// (same index, same span).
	fn at(&mut self, what: &str, offset: usize, want: usize, kind: FragKind) -> Result<(), String> {
		self.checks += 1;
		if offset != want {
			return Err(format!("{}: offset {} but the element is fragment {} of the document", what, offset, want));
		}
		let f = self.frags.get(want).ok_or_else(|| format!("{}: reference has no fragment {}", what, want))?;
		if f.kind != kind {
			return Err(format!("{}: fragment {} is a {:?}, expected a {:?}", what, want, f.kind, kind));
		}
		let e = self.cm.get(offset).ok_or_else(|| format!("{}: offset {} past the end of the code map ({})", what, offset, self.cm.len()))?;
		if e.span.start() != f.start || e.span.end() != f.end {
			return Err(format!("{}: code_map[{}] spans {}..{}, the element's text is {}..{}", what, offset, e.span.start(), e.span.end(), f.start, f.end));
		}
		Ok(())
	}
}

/// Walks value `v` (reference `r`) located at reference index `i`; returns the
/// number of fragments of the subtree.
fn walk(cx: &mut Ctx, v: &Value, r: &RVal, i: usize) -> Result<usize, String> {
	match (v, r) {
		(Value::Array(a), RVal::Arr(ra)) => {
			if a.len() != ra.len() {
				return Err("array length differs from the reference (decoding problem, see C02)".into());
			}
			// reference indexes of the items
			let mut idx = Vec::with_capacity(ra.len());
			let mut j = i + 1;
			for x in ra {
				idx.push(j);
				j += x.fragments();
			}
			let mut n = 0;
			for (k, m) in a.iter_mapped(cx.cm, i).enumerate() {
				if k >= a.len() || !std::ptr::eq(m.value, &a[k]) {
					return Err(format!("array at {}: iter_mapped item {} is not the {}-th item", i, k, k));
				}
				cx.at(&format!("array at {}: iter_mapped item {}", i, k), m.offset, idx[k], FragKind::Value)?;
				n += 1;
			}
			if n != a.len() {
				return Err(format!("array at {}: iter_mapped yields {} of {} items", i, n, a.len()));
			}
			// any way of consuming the mapped iterator must give the same offsets
			if a.len() >= 2 && a.len() <= 40 {
				let want: Vec<(usize, usize)> = idx.iter().enumerate().map(|(k, o)| (*o, &a[k] as *const Value as usize)).collect();
				cx.checks += crate::monitor::check_iter_by(&format!("array at {}: iter_mapped", i), &|| a.iter_mapped(cx.cm, i), &|m: Mapped<&Value>| (m.offset, m.value as *const Value as usize), &want)?;
			}
			// the slice implementation too
			let sl: &[Value] = a.as_slice();
			let offs: Vec<usize> = sl.iter_mapped(cx.cm, i).map(|m| m.offset).collect();
			if offs != idx {
				return Err(format!("array at {}: <[Value]>::iter_mapped offsets {:?}, expected {:?}", i, offs, idx));
			}
			for (k, x) in a.iter().enumerate() {
				walk(cx, x, &ra[k], idx[k])?;
			}
			Ok(j - i)
		}
		(Value::Object(o), RVal::Obj(ro)) => {
			if o.len() != ro.len() {
				return Err("object length differs from the reference (decoding problem, see C02)".into());
			}
			// reference indexes (entry, key, value) of each entry
			let mut idx = Vec::with_capacity(ro.len());
			let mut j = i + 1;
			for (_, x) in ro {
				idx.push((j, j + 1, j + 2));
				j += 2 + x.fragments();
			}
			let mut n = 0;
			for (k, m) in o.iter_mapped(cx.cm, i).enumerate() {
				let e = &o.entries()[k];
				if !std::ptr::eq(m.value.key.value, &e.key) || !std::ptr::eq(m.value.value.value, &e.value) {
					return Err(format!("object at {}: iter_mapped entry {} does not point at the {}-th entry", i, k, k));
				}
				cx.at(&format!("object at {}: iter_mapped entry {}", i, k), m.offset, idx[k].0, FragKind::Entry)?;
				cx.at(&format!("object at {}: iter_mapped key {}", i, k), m.value.key.offset, idx[k].1, FragKind::Key)?;
				cx.at(&format!("object at {}: iter_mapped value {}", i, k), m.value.value.offset, idx[k].2, FragKind::Value)?;
				n += 1;
			}
			if n != o.len() {
				return Err(format!("object at {}: iter_mapped yields {} of {} entries", i, n, o.len()));
			}
			if o.len() >= 2 && o.len() <= 40 {
				let want: Vec<(usize, usize, usize)> = idx.clone();
				cx.checks += crate::monitor::check_iter_by(&format!("object at {}: iter_mapped", i), &|| o.iter_mapped(cx.cm, i), &|m: json_syntax::object::MappedEntry| (m.offset, m.value.key.offset, m.value.value.offset), &want)?;
			}
			// the object-level conversion trait, directly and through its Box impl, at this object's offset:
			// the probe type reports the offset of the first value that is not a number
			{
				use json_syntax::TryFromJsonObject;
				let want: Result<(), usize> = match ro.iter().position(|e| !matches!(e.1, RVal::Num(_))) {
					Some(p) => Err(idx[p].2),
					None => Ok(()),
				};
				let direct = ObjProbe::try_from_json_object_at(o, cx.cm, i).map(|_| ());
				let boxed = <Box<ObjProbe>>::try_from_json_object_at(o, cx.cm, i).map(|_| ());
				let twice = <Box<Box<ObjProbe>>>::try_from_json_object_at(o, cx.cm, i).map(|_| ());
				cx.checks += 3;
				if direct != want || boxed != want || twice != want {
					return Err(format!("object at {}: TryFromJsonObject reports {:?} (direct) / {:?} (Box) / {:?} (Box<Box>), the first non-number value is at {:?}", i, direct, boxed, twice, want));
				}
				if i == 0 {
					let root = <Box<ObjProbe>>::try_from_json_object(o, cx.cm).map(|_| ());
					if root != want {
						return Err(format!("root object: Box::try_from_json_object reports {:?}, expected {:?}", root, want));
					}
				}
			}
			// key-based lookups, for every key present and an absent one
			let mut keys: Vec<&str> = ro.iter().map(|e| e.0.as_str()).collect();
			keys.sort();
			keys.dedup();
			keys.push("\u{3}absent");
			for key in keys {
				let pos: Vec<usize> = ro.iter().enumerate().filter(|(_, e)| e.0 == key).map(|(p, _)| p).collect();
				let what = format!("object at {} key {:?}", i, key);
				// get_mapped
				let got: Vec<(usize, *const Value)> = o.get_mapped(cx.cm, i, key).map(|m| (m.offset, m.value as *const Value)).collect();
				if got.len() != pos.len() {
					return Err(format!("{}: get_mapped yields {} values, {} entries carry the key", what, got.len(), pos.len()));
				}
				for (g, &p) in got.iter().zip(&pos) {
					if g.1 != &o.entries()[p].value as *const Value {
						return Err(format!("{}: get_mapped does not point at entry {}", what, p));
					}
					cx.at(&format!("{}: get_mapped", what), g.0, idx[p].2, FragKind::Value)?;
				}
				if pos.len() >= 2 && pos.len() <= 16 {
					let want: Vec<usize> = pos.iter().map(|&p| idx[p].2).collect();
					cx.checks += crate::monitor::check_iter_by(&format!("{}: get_mapped", what), &|| o.get_mapped(cx.cm, i, key), &|m: Mapped<&Value>| m.offset, &want)?;
					let wante: Vec<usize> = pos.iter().map(|&p| idx[p].0).collect();
					cx.checks += crate::monitor::check_iter_by(&format!("{}: get_mapped_entries", what), &|| o.get_mapped_entries(cx.cm, i, key), &|m: json_syntax::object::MappedEntry| m.offset, &wante)?;
				}
				// get_mapped_with_index
				let got: Vec<(usize, usize)> = o.get_mapped_with_index(cx.cm, i, key).map(|(p, m)| (p, m.offset)).collect();
				let want: Vec<(usize, usize)> = pos.iter().map(|&p| (p, idx[p].2)).collect();
				cx.checks += 1;
				if got != want {
					return Err(format!("{}: get_mapped_with_index gives {:?}, expected {:?}", what, got, want));
				}
				// get_mapped_entries
				let got: Vec<(usize, usize, usize)> = o.get_mapped_entries(cx.cm, i, key).map(|m| (m.offset, m.value.key.offset, m.value.value.offset)).collect();
				let want3: Vec<(usize, usize, usize)> = pos.iter().map(|&p| idx[p]).collect();
				cx.checks += 1;
				if got != want3 {
					return Err(format!("{}: get_mapped_entries gives {:?}, expected {:?}", what, got, want3));
				}
				for &p in &pos {
					cx.at(&format!("{}: entry", what), idx[p].0, idx[p].0, FragKind::Entry)?;
					cx.at(&format!("{}: key", what), idx[p].1, idx[p].1, FragKind::Key)?;
				}
				// get_mapped_entries_with_index
				let got: Vec<(usize, (usize, usize, usize))> = o
					.get_mapped_entries_with_index(cx.cm, i, key)
					.map(|(p, m)| (p, (m.offset, m.value.key.offset, m.value.value.offset)))
					.collect();
				let want4: Vec<(usize, (usize, usize, usize))> = pos.iter().map(|&p| (p, idx[p])).collect();
				cx.checks += 1;
				if got != want4 {
					return Err(format!("{}: get_mapped_entries_with_index gives {:?}, expected {:?}", what, got, want4));
				}
				// the four unique variants
				cx.checks += 4;
				let u = o.get_unique_mapped(cx.cm, i, key);
				let ok = match (pos.len(), &u) {
					(0, Ok(None)) => true,
					(1, Ok(Some(m))) => m.offset == idx[pos[0]].2,
					(n, Err(d)) if n >= 2 => d.0.offset == idx[pos[0]].2 && d.1.offset == idx[pos[1]].2,
					_ => false,
				};
				if !ok {
					return Err(format!("{}: get_unique_mapped with {} matching entries gives {:?}", what, pos.len(), u.map(|x| x.map(|m| m.offset)).map_err(|d| (d.0.offset, d.1.offset))));
				}
				let u = o.get_unique_mapped_with_index(cx.cm, i, key);
				let ok = match (pos.len(), &u) {
					(0, Ok(None)) => true,
					(1, Ok(Some((p, m)))) => *p == pos[0] && m.offset == idx[pos[0]].2,
					(n, Err(d)) if n >= 2 => d.0 .0 == pos[0] && d.0 .1.offset == idx[pos[0]].2 && d.1 .0 == pos[1] && d.1 .1.offset == idx[pos[1]].2,
					_ => false,
				};
				if !ok {
					return Err(format!("{}: get_unique_mapped_with_index with {} matching entries is wrong", what, pos.len()));
				}
				let u = o.get_unique_mapped_entry(cx.cm, i, key);
				let ok = match (pos.len(), &u) {
					(0, Ok(None)) => true,
					(1, Ok(Some(m))) => (m.offset, m.value.key.offset, m.value.value.offset) == idx[pos[0]],
					(n, Err(d)) if n >= 2 => d.0.offset == idx[pos[0]].0 && d.1.offset == idx[pos[1]].0,
					_ => false,
				};
				if !ok {
					return Err(format!("{}: get_unique_mapped_entry with {} matching entries is wrong", what, pos.len()));
				}
				let u = o.get_unique_mapped_entry_with_index(cx.cm, i, key);
				let ok = match (pos.len(), &u) {
					(0, Ok(None)) => true,
					(1, Ok(Some((p, m)))) => *p == pos[0] && m.offset == idx[pos[0]].0,
					(n, Err(d)) if n >= 2 => d.0 .0 == pos[0] && d.0 .1.offset == idx[pos[0]].0 && d.1 .0 == pos[1] && d.1 .1.offset == idx[pos[1]].0,
					_ => false,
				};
				if !ok {
					return Err(format!("{}: get_unique_mapped_entry_with_index with {} matching entries is wrong", what, pos.len()));
				}
			}
			for (k, e) in o.iter().enumerate() {
				walk(cx, &e.value, &ro[k].1, idx[k].2)?;
			}
			Ok(j - i)
		}
		_ => Ok(1),
	}
}

/// A user type converted from an object: fails with the code-map offset of the
/// first value that is not a number.
struct ObjProbe;

impl json_syntax::TryFromJsonObject for ObjProbe {
	type Error = usize;

	fn try_from_json_object_at(object: &json_syntax::Object, code_map: &CodeMap, offset: usize) -> Result<Self, usize> {
		for m in object.iter_mapped(code_map, offset) {
			if !m.value.value.value.is_number() {
				return Err(m.value.value.offset);
			}
		}
		Ok(ObjProbe)
	}
}

fn check_fragments(v: &Value, frags: &[Frag]) -> Result<u64, String> {
	let all: Vec<(usize, FragmentRef)> = v.traverse().collect();
	let count = all.len();
	if count != frags.len() {
		return Err(format!("traverse yields {} fragments, the document has {}", count, frags.len()));
	}
	for (i, (ti, f)) in all.iter().enumerate() {
		if *ti != i {
			return Err(format!("traverse numbers fragment {} as {}", i, ti));
		}
		let got = v.get_fragment(i).map_err(|e| format!("get_fragment({}) = Err({}) although there are {} fragments", i, e, count))?;
		let same = match (f, &got) {
			(FragmentRef::Value(a), FragmentRef::Value(b)) => std::ptr::eq(*a, *b) && frags[i].kind == FragKind::Value,
			(FragmentRef::Entry(a), FragmentRef::Entry(b)) => std::ptr::eq(*a, *b) && frags[i].kind == FragKind::Entry,
			(FragmentRef::Key(a), FragmentRef::Key(b)) => std::ptr::eq(*a, *b) && frags[i].kind == FragKind::Key,
			_ => false,
		};
		if !same {
			return Err(format!("get_fragment({}) is not the {}-th fragment of the traversal (a {:?})", i, i, frags[i].kind));
		}
	}
	// the traversal itself, consumed in every way an iterator can be (a sample of documents: small ones)
	if count <= 24 {
		let want: Vec<(usize, usize)> = all
			.iter()
			.map(|(i, f)| {
				(
					*i,
					match f {
						FragmentRef::Value(x) => *x as *const Value as usize,
						FragmentRef::Entry(x) => *x as *const json_syntax::object::Entry as usize,
						FragmentRef::Key(x) => *x as *const json_syntax::object::Key as usize,
					},
				)
			})
			.collect();
		crate::monitor::check_iter_by(
			"traverse()",
			&|| v.traverse(),
			&|(i, f): (usize, FragmentRef)| {
				(
					i,
					match f {
						FragmentRef::Value(x) => x as *const Value as usize,
						FragmentRef::Entry(x) => x as *const json_syntax::object::Entry as usize,
						FragmentRef::Key(x) => x as *const json_syntax::object::Key as usize,
					},
				)
			},
			&want,
		)?;
	}
	// the kind predicates of a fragment and its direct sub-fragments (forwards and backwards)
	for (i, (_, f)) in all.iter().enumerate() {
		let (val_kind, n_sub): (Option<json_syntax::Kind>, usize) = match f {
			FragmentRef::Value(x) => (
				Some(x.kind()),
				match x {
					Value::Array(a) => a.len(),
					Value::Object(o) => o.len(),
					_ => 0,
				},
			),
			FragmentRef::Entry(_) => (None, 2),
			FragmentRef::Key(_) => (None, 0),
		};
		use json_syntax::Kind;
		let preds = [f.is_null(), f.is_number(), f.is_string(), f.is_array(), f.is_object()];
		let want = [val_kind == Some(Kind::Null), val_kind == Some(Kind::Number), val_kind == Some(Kind::String), val_kind == Some(Kind::Array), val_kind == Some(Kind::Object)];
		if preds != want || f.is_value() != val_kind.is_some() {
			return Err(format!("fragment {}: is_null/is_number/is_string/is_array/is_object = {:?}, the fragment is {:?}", i, preds, frags[i].kind));
		}
		let id = |g: &FragmentRef| match g {
			FragmentRef::Value(x) => (0u8, *x as *const Value as usize),
			FragmentRef::Entry(x) => (1, *x as *const json_syntax::object::Entry as usize),
			FragmentRef::Key(x) => (2, *x as *const json_syntax::object::Key as usize),
		};
		let fwd: Vec<(u8, usize)> = f.sub_fragments().map(|g| id(&g)).collect();
		let mut bwd: Vec<(u8, usize)> = f.sub_fragments().rev().map(|g| id(&g)).collect();
		bwd.reverse();
		if fwd != bwd || fwd.len() != n_sub {
			return Err(format!("fragment {}: sub_fragments() yields {} fragments forwards, {} backwards, the fragment has {} direct sub-fragments", i, fwd.len(), bwd.len(), n_sub));
		}
		// the first direct sub-fragment is the next fragment of the traversal
		if n_sub > 0 && all.get(i + 1).map(|(_, g)| id(g)) != fwd.first().copied() {
			return Err(format!("fragment {}: its first sub-fragment is not fragment {} of the traversal", i, i + 1));
		}
	}
	for k in [0usize, 1, 2, 17] {
		match v.get_fragment(count + k) {
			Err(e) if e == k => (),
			other => return Err(format!("get_fragment({}) with {} fragments gives {:?}, expected Err({})", count + k, count, other.map(|_| "Ok").map_err(|e| e), k)),
		}
	}
	let values = frags.iter().filter(|f| f.kind == FragKind::Value).count();
	if v.volume() != values {
		return Err(format!("volume() = {}, the document has {} value fragments", v.volume(), values));
	}
	let keys = frags.iter().filter(|f| f.kind == FragKind::Key).count();
	let odd = frags.iter().enumerate().filter(|(i, _)| i % 2 == 1).count();
	if v.count(|_, f| f.is_key()) != keys || v.count(|i, _| i % 2 == 1) != odd || v.count(|_, f| f.is_entry()) != keys {
		return Err("count(f) disagrees with the traversal".into());
	}
	Ok(count as u64 + 7)
}

// ---------------------------------------------------------------------------
// TryFromJson with a leaf type of the harness
// ---------------------------------------------------------------------------

#[derive(Debug, PartialEq, Eq, PartialOrd, Ord)]
pub struct Leaf(bool);

#[derive(Debug, PartialEq)]
pub enum LErr {
	Kind { offset: usize, found: Kind },
	Key { offset: usize },
}

impl From<Mapped<Unexpected>> for LErr {
	fn from(m: Mapped<Unexpected>) -> Self {
		LErr::Kind {
			offset: m.offset,
			found: m.value.found,
		}
	}
}

impl From<Mapped<std::num::ParseIntError>> for LErr {
	fn from(m: Mapped<std::num::ParseIntError>) -> Self {
		LErr::Key { offset: m.offset }
	}
}

impl From<Mapped<std::convert::Infallible>> for LErr {
	fn from(m: Mapped<std::convert::Infallible>) -> Self {
		LErr::Key { offset: m.offset }
	}
}

impl TryFromJson for Leaf {
	type Error = LErr;
	fn try_from_json_at(json: &Value, _code_map: &CodeMap, offset: usize) -> Result<Self, LErr> {
		match json {
			Value::Boolean(b) => Ok(Leaf(*b)),
			other => Err(LErr::Kind {
				offset,
				found: other.kind(),
			}),
		}
	}
}

/// Uniform rendering of the error types of the built-in conversions.
struct DebugMapped<'a, T>(&'a T);

trait MappedErr {
	fn describe(&self) -> String;
}

impl MappedErr for Mapped<Unexpected> {
	fn describe(&self) -> String {
		format!("offset={} found={:?} expected={}", self.offset, self.value.found, self.value.expected.as_disjunction())
	}
}

impl<T> MappedErr for Mapped<json_syntax::TryIntoNumberError<T>> {
	fn describe(&self) -> String {
		match &self.value {
			json_syntax::TryIntoNumberError::Unexpected(u) => format!("offset={} found={:?} expected={}", self.offset, u.found, u.expected.as_disjunction()),
			json_syntax::TryIntoNumberError::OutOfBounds(_) => format!("offset={} out-of-bounds", self.offset),
		}
	}
}

impl<'a, T: MappedErr> std::fmt::Debug for DebugMapped<'a, T> {
	fn fmt(&self, f: &mut std::fmt::Formatter) -> std::fmt::Result {
		f.write_str(&self.0.describe())
	}
}

/// Shape of a conforming document.
#[derive(Clone, Debug)]
enum Shape {
	Leaf,
	Str,
	Vec(Box<Shape>),
	MapU32(Box<Shape>),
	MapStr(Box<Shape>),
	Opt(Box<Shape>),
}

fn gen_conforming(rng: &mut Rng, s: &Shape) -> RVal {
	match s {
		Shape::Leaf => RVal::Bool(rng.chance(1, 2)),
		Shape::Str => RVal::Str(gen::gen_string(rng)),
		Shape::Vec(inner) => {
			let n = [0, 1, 2, 3, 5][rng.below(5)];
			RVal::Arr((0..n).map(|_| gen_conforming(rng, inner)).collect())
		}
		Shape::MapU32(inner) => {
			let n = [0, 1, 2, 4][rng.below(4)];
			RVal::Obj((0..n).map(|_| (rng.below(1000).to_string(), gen_conforming(rng, inner))).collect())
		}
		Shape::MapStr(inner) => {
			let n = [0, 1, 2, 4][rng.below(4)];
			RVal::Obj((0..n).map(|_| (gen::gen_key(rng), gen_conforming(rng, inner))).collect())
		}
		Shape::Opt(inner) => {
			if rng.chance(1, 3) {
				RVal::Null
			} else {
				gen_conforming(rng, inner)
			}
		}
	}
}

/// Pre-order list of (fragment index, kind, path) of a reference tree.
fn positions(r: &RVal, i: usize, path: &mut Vec<usize>, out: &mut Vec<(usize, FragKind, Vec<usize>)>) -> usize {
	out.push((i, FragKind::Value, path.clone()));
	match r {
		RVal::Arr(a) => {
			let mut j = i + 1;
			for (k, x) in a.iter().enumerate() {
				path.push(k);
				j += positions(x, j, path, out);
				path.pop();
			}
			j - i
		}
		RVal::Obj(o) => {
			let mut j = i + 1;
			for (k, (_, x)) in o.iter().enumerate() {
				path.push(k);
				out.push((j + 1, FragKind::Key, path.clone()));
				j += 2 + positions(x, j + 2, path, out);
				path.pop();
			}
			j - i
		}
		_ => 1,
	}
}

fn replace_at(r: &RVal, path: &[usize], new: &RVal) -> RVal {
	if path.is_empty() {
		return new.clone();
	}
	match r {
		RVal::Arr(a) => RVal::Arr(a.iter().enumerate().map(|(k, x)| if k == path[0] { replace_at(x, &path[1..], new) } else { x.clone() }).collect()),
		RVal::Obj(o) => RVal::Obj(o.iter().enumerate().map(|(k, (key, x))| (key.clone(), if k == path[0] { replace_at(x, &path[1..], new) } else { x.clone() })).collect()),
		other => other.clone(),
	}
}

fn replace_key_at(r: &RVal, path: &[usize], new_key: &str) -> RVal {
	match r {
		RVal::Arr(a) => RVal::Arr(a.iter().enumerate().map(|(k, x)| if k == path[0] { replace_key_at(x, &path[1..], new_key) } else { x.clone() }).collect()),
		RVal::Obj(o) => RVal::Obj(
			o.iter()
				.enumerate()
				.map(|(k, (key, x))| {
					if k == path[0] {
						if path.len() == 1 {
							(new_key.to_string(), x.clone())
						} else {
							(key.clone(), replace_key_at(x, &path[1..], new_key))
						}
					} else {
						(key.clone(), x.clone())
					}
				})
				.collect(),
		),
		other => other.clone(),
	}
}

fn convert(which: usize, v: &Value, cm: &CodeMap) -> Result<(), LErr> {
	match which {
		0 => Vec::<Leaf>::try_from_json(v, cm).map(|_| ()),
		1 => Vec::<Vec<Leaf>>::try_from_json(v, cm).map(|_| ()),
		2 => BTreeMap::<u32, Leaf>::try_from_json(v, cm).map(|_| ()),
		3 => Vec::<BTreeMap<String, Vec<Leaf>>>::try_from_json(v, cm).map(|_| ()),
		4 => Vec::<Option<Box<Leaf>>>::try_from_json(v, cm).map(|_| ()),
		5 => BTreeMap::<String, Vec<Vec<Leaf>>>::try_from_json(v, cm).map(|_| ()),
		6 => Vec::<String>::try_from_json(v, cm).map(|_| ()).map_err(LErr::from),
		_ => Vec::<BTreeMap<u32, Vec<Option<Leaf>>>>::try_from_json(v, cm).map(|_| ()),
	}
}

fn shape_of(which: usize) -> Shape {
	use Shape::*;
	let b = Box::new;
	match which {
		0 => Vec(b(Leaf)),
		1 => Vec(b(Vec(b(Leaf)))),
		2 => MapU32(b(Leaf)),
		3 => Vec(b(MapStr(b(Vec(b(Leaf)))))),
		4 => Vec(b(Opt(b(Leaf)))),
		5 => MapStr(b(Vec(b(Vec(b(Leaf)))))),
		6 => Vec(b(Str)),
		_ => Vec(b(MapU32(b(Vec(b(Opt(b(Leaf)))))))),
	}
}

const N_TYPES: usize = 8;

fn parse_doc(rng: &mut Rng, r: &RVal) -> Option<(String, Value, CodeMap)> {
	let style = WriteStyle {
		whitespace: rng.below(3) as u8,
		escapes: rng.below(2) as u8,
	};
	let text = gen::write_doc(rng, r, &style);
	match Value::parse_str(&text) {
		Ok((v, cm)) => Some((text, v, cm)),
		Err(_) => None,
	}
}

/// What a conversion of `r` into `shape` must report (the first failure in document order), with
/// the pre-order numbering of fragments: a container at `i` has its first child at `i + 1`; an
/// entry at `j` has its key at `j + 1` and its value at `j + 2`.
fn model_convert(shape: &Shape, r: &RVal, i: usize) -> Result<(), (bool, usize, Option<Kind>)> {
	fn kind_of(r: &RVal) -> Kind {
		match r {
			RVal::Null => Kind::Null,
			RVal::Bool(_) => Kind::Boolean,
			RVal::Num(_) => Kind::Number,
			RVal::Str(_) => Kind::String,
			RVal::Arr(_) => Kind::Array,
			RVal::Obj(_) => Kind::Object,
		}
	}
	fn volume(r: &RVal) -> usize {
		match r {
			RVal::Arr(a) => 1 + a.iter().map(volume).sum::<usize>(),
			RVal::Obj(o) => 1 + o.iter().map(|(_, x)| 2 + volume(x)).sum::<usize>(),
			_ => 1,
		}
	}
	let wrong = || Err((false, i, Some(kind_of(r))));
	match (shape, r) {
		(Shape::Leaf, RVal::Bool(_)) => Ok(()),
		(Shape::Str, RVal::Str(_)) => Ok(()),
		(Shape::Opt(_), RVal::Null) => Ok(()),
		(Shape::Opt(inner), _) => model_convert(inner, r, i),
		(Shape::Vec(inner), RVal::Arr(items)) => {
			let mut j = i + 1;
			for x in items {
				model_convert(inner, x, j)?;
				j += volume(x);
			}
			Ok(())
		}
		(Shape::MapU32(inner), RVal::Obj(entries)) | (Shape::MapStr(inner), RVal::Obj(entries)) => {
			let mut j = i + 1;
			for (k, x) in entries {
				if matches!(shape, Shape::MapU32(_)) && k.parse::<u32>().is_err() {
					return Err((true, j + 1, None));
				}
				model_convert(inner, x, j + 2)?;
				j += 2 + volume(x);
			}
			Ok(())
		}
		_ => wrong(),
	}
}

fn conversions(rep: &mut Report, rng: &mut Rng, which: usize) {
	let shape = shape_of(which);
	let r = gen_conforming(rng, &shape);
	let Some((text, v, cm)) = parse_doc(rng, &r) else {
		rep.inconclusive.push("generator: conforming document does not parse".into());
		return;
	};
	rep.evaluations += 1;
	rep.distinct_hash(fnv(text.as_bytes()) ^ which as u64);
	let case = |doc: &str, which: usize| json!({"sub": "conversion", "type": which, "doc": doc});
	match guard(|| convert(which, &v, &cm)) {
		Ok(Ok(())) => rep.count("conforming_conversions_ok", 1),
		other => {
			rep.violation("C11:conversion-of-conforming", format!("type {}: conforming document {} gives {:?}", which, show(text.as_bytes()), other), case(&text, which));
			return;
		}
	}
	// plant a wrong-kind value at every position in turn
	let mut pos = Vec::new();
	positions(&r, 0, &mut Vec::new(), &mut pos);
	for (idx, kind, path) in pos {
		let planted = match kind {
			FragKind::Value => {
				// a number is of the wrong kind everywhere in these shapes
				replace_at(&r, &path, &RVal::Num("7".into()))
			}
			FragKind::Key => {
				if !matches!(which, 2 | 7) {
					continue;
				}
				// only meaningful when this key belongs to a u32-keyed map: in type 7 that is depth 2 (path length 2)
				if which == 7 && path.len() != 2 {
					continue;
				}
				replace_key_at(&r, &path, "not-a-number")
			}
			FragKind::Entry => continue,
		};
		let Some((ptext, pv, pcm)) = parse_doc(rng, &planted) else { continue };
		rep.count("planted_documents", 1);
		let got = guard(|| convert(which, &pv, &pcm));
		let ok = match (&got, kind) {
			(Ok(Err(LErr::Kind { offset, found })), FragKind::Value) => *offset == idx && *found == Kind::Number,
			(Ok(Err(LErr::Key { offset })), FragKind::Key) => *offset == idx,
			_ => false,
		};
		if !ok {
			rep.violation(
				"C11:conversion-error-offset",
				format!("type {}: wrong-kind {} planted at fragment {} of {}: conversion reports {:?}", which, if kind == FragKind::Key { "key" } else { "value" }, idx, show(ptext.as_bytes()), got),
				case(&ptext, which),
			);
			return;
		}
		// another value at the same place (null, an empty or non-empty container of either kind, a string, a
		// boolean): what the conversion must report is decided by a model of the conversion traits
		if kind == FragKind::Value {
			let other = [RVal::Null, RVal::Obj(vec![]), RVal::Arr(vec![]), RVal::Str("s".into()), RVal::Bool(true), RVal::Arr(vec![RVal::Null]), RVal::Obj(vec![("1".into(), RVal::Bool(false))])][(idx + rep.evaluations as usize) % 7].clone();
			let planted2 = replace_at(&r, &path, &other);
			let Some((ptext2, pv2, pcm2)) = parse_doc(rng, &planted2) else { continue };
			rep.count("planted_documents", 1);
			let want = model_convert(&shape, &planted2, 0);
			let got2 = guard(|| convert(which, &pv2, &pcm2));
			let ok2 = match (&got2, &want) {
				(Ok(Ok(())), Ok(())) => true,
				(Ok(Err(LErr::Kind { offset, found })), Err((false, o, Some(f)))) => offset == o && found == f,
				(Ok(Err(LErr::Key { offset })), Err((true, o, _))) => offset == o,
				_ => false,
			};
			if !ok2 {
				rep.violation(
					"C11:conversion-error-offset",
					format!("type {}: {} planted at fragment {} of {}: conversion reports {:?}, a model of the conversion traits gives {:?} ((is_key, offset, found kind))", which, doc_of(&other), idx, show(ptext2.as_bytes()), got2, want),
					case(&ptext2, which),
				);
				return;
			}
		}
	}
}

fn navigate(rep: &mut Report, rd: &mut Reader, fam: &str, text: &str) {
	navigate_with(rep, rd, fam, text, Opts::STRICT, None);
	// the same document read from a character source that declares other encoded lengths: the code
	// map is then in those units, and navigation must be just as exact
	if rep.evaluations % 4 == 0 || text.len() < 24 {
		let w = crate::real::ALL_WIDTHS[(rep.evaluations as usize / 4) % crate::real::ALL_WIDTHS.len()];
		navigate_with(rep, rd, fam, text, Opts::STRICT, Some(w));
	}
}

/// Navigation checks on `text` parsed under `opts`, through `parse_str_with`
/// or (when `widths` is given) through `parse_with` over a source declaring
/// those character lengths.
fn navigate_with(rep: &mut Report, rd: &mut Reader, fam: &str, text: &str, opts: Opts, widths: Option<crate::real::Widths>) {
	rep.evaluations += 1;
	let rd_res = rd.read(text.as_bytes(), true);
	if !rd_res.accepts(opts) {
		return;
	}
	let Some(root) = &rd_res.root else { return };
	let parsed = match widths {
		None => guard(|| Value::parse_str_with(text, crate::real::options(opts))).map(|r| r.ok()),
		Some(w) => guard(|| {
			Value::parse_with(
				text.chars().map(|c| Ok::<decoded_char::DecodedChar, std::convert::Infallible>(decoded_char::DecodedChar::new(c, w.of(c)))),
				crate::real::options(opts),
			)
		})
		.map(|r| r.ok()),
	};
	let (v, cm) = match parsed {
		Ok(Some(x)) => x,
		_ => return, // acceptance is C01's / C12's business
	};
	// the reference fragments, in the units of the source
	let frags: Vec<Frag> = match widths {
		None => rd_res.frags.clone(),
		Some(w) => {
			let m = super::parsefam::width_offsets(text, w);
			rd_res
				.frags
				.iter()
				.map(|f| {
					let mut g = f.clone();
					g.start = m[f.start];
					g.end = m[f.end];
					g
				})
				.collect()
		}
	};
	let how = match (widths, opts == Opts::STRICT) {
		(None, true) => String::new(),
		(None, false) => format!(" (options truncated={} invalid={})", opts.truncated, opts.invalid),
		(Some(w), _) => format!(" (source declaring {:?} lengths, options truncated={} invalid={})", w, opts.truncated, opts.invalid),
	};
	let case = json!({"sub": "navigate", "doc": text, "options": [opts.truncated, opts.invalid], "widths": widths.map(|w| format!("{:?}", w))});
	let r = guard(|| {
		let mut cx = Ctx {
			cm: &cm,
			frags: &frags,
			checks: 0,
		};
		let n = walk(&mut cx, &v, root, 0)?;
		if n != frags.len() {
			return Err(format!("walk covered {} fragments of {}", n, frags.len()));
		}
		let f = check_fragments(&v, &frags)?;
		// the views of the code map itself agree with each other
		{
			use std::borrow::Borrow;
			let sl = cm.as_slice();
			let a: &[json_syntax::code_map::Entry] = cm.as_ref();
			let b: &[json_syntax::code_map::Entry] = cm.borrow();
			let by_iter: Vec<_> = cm.iter().map(|(i, e)| (i, *e)).collect();
			let by_ref: Vec<_> = (&cm).into_iter().map(|(i, e)| (i, *e)).collect();
			let by_value: Vec<_> = cm.clone().into_iter().collect();
			let numbered: Vec<_> = sl.iter().copied().enumerate().collect();
			if a != sl || b != sl || by_iter != numbered || by_ref != numbered || by_value != numbered || cm.len() != sl.len() {
				return Err("as_slice / as_ref / borrow / iter / into_iter of the code map disagree".into());
			}
		}
		Ok::<u64, String>(cx.checks + f)
	});
	match r {
		Ok(Ok(n)) => {
			rep.count("offset_checks", n);
			rep.count("documents_navigated", 1);
			if widths.is_some() {
				rep.count("documents_navigated_in_other_length_units", 1);
			}
			if opts != Opts::STRICT {
				rep.count("documents_navigated_under_lenient_options", 1);
			}
			rep.count("fragments", frags.len() as u64);
		}
		Ok(Err(m)) => rep.violation("C11:navigation", format!("[{}] document `{}`{}: {}", fam, show(text.as_bytes()), how, m), case),
		Err(p) => rep.violation("C11:panic", format!("[{}] document `{}`{}: panic {}", fam, show(text.as_bytes()), how, p), case),
	}
}

/// Self-consistency of whatever `parse_slice_with` accepts: every fragment's span lies inside the
/// input, spans are the traversal's in order, and the bytes a span delimits parse (same options) to
/// that fragment. No reference reader is involved, so this also judges inputs the reference rejects.
fn navigate_bytes(rep: &mut Report, fam: &str, bytes: &[u8], opts: Opts) {
	rep.evaluations += 1;
	let o = crate::real::options(opts);
	let (v, cm) = match guard(|| Value::parse_slice_with(bytes, o)) {
		Ok(Ok(x)) => x,
		Ok(Err(_)) => {
			rep.count("byte_inputs_refused", 1);
			return;
		}
		Err(p) => {
			rep.violation("C11:panic", format!("[{}] parse_slice_with panicked on `{}`: {}", fam, show(bytes), p), json!({"sub": "bytes", "bytes": bytes, "options": [opts.truncated, opts.invalid]}));
			return;
		}
	};
	rep.count("byte_inputs_accepted", 1);
	let r = guard(|| {
		let mut n = 0u64;
		for (i, f) in v.traverse() {
			let Some(e) = cm.get(i) else { return Err(format!("fragment {} has no code map entry", i)) };
			let (s, t) = (e.span.start(), e.span.end());
			if s > t || t > bytes.len() {
				return Err(format!("fragment {} has span {}..{}, the input has {} bytes", i, s, t, bytes.len()));
			}
			let piece = &bytes[s..t];
			let ok = match f {
				json_syntax::FragmentRef::Value(x) => matches!(Value::parse_slice_with(piece, o), Ok((y, _)) if y == *x),
				json_syntax::FragmentRef::Key(k) => matches!(Value::parse_slice_with(piece, o), Ok((Value::String(y), _)) if y.as_str() == k.as_str()),
				json_syntax::FragmentRef::Entry(en) => {
					let mut d = vec![b'{'];
					d.extend_from_slice(piece);
					d.push(b'}');
					matches!(Value::parse_slice_with(&d, o), Ok((Value::Object(ob), _)) if ob.len() == 1 && ob.entries()[0] == *en)
				}
			};
			if !ok {
				return Err(format!("fragment {} ({}) has span {}..{} = `{}`, which does not read back as that fragment", i, match f { json_syntax::FragmentRef::Value(_) => "value", json_syntax::FragmentRef::Key(_) => "key", _ => "entry" }, s, t, show(piece)));
			}
			n += 1;
		}
		if n as usize != cm.len() {
			return Err(format!("the traversal has {} fragments, the code map {} entries", n, cm.len()));
		}
		Ok(n)
	});
	match r {
		Ok(Ok(n)) => rep.count("offset_checks", n),
		Ok(Err(m)) => rep.violation("C11:navigation-bytes", format!("[{}] input `{}` (options truncated={} invalid={}): {}", fam, show(bytes), opts.truncated, opts.invalid, m), json!({"sub": "bytes", "bytes": bytes, "options": [opts.truncated, opts.invalid]})),
		Err(p) => rep.violation("C11:panic", format!("[{}] input `{}`: panic {}", fam, show(bytes), p), json!({"sub": "bytes", "bytes": bytes, "options": [opts.truncated, opts.invalid]})),
	}
}

/// Writes `r` as JSON text in which some strings and keys carry an unpaired
/// surrogate escape (at the end, at the start or in the middle), so that the
/// text is accepted under the lenient options only.
fn write_with_lone_surrogates(rng: &mut Rng, r: &RVal, out: &mut String) {
	fn string(rng: &mut Rng, s: &str, out: &mut String) {
		let mut lit = String::new();
		pr::write_string(s, &mut lit);
		let esc = ["\\ud800", "\\uDBFF", "\\udc00", "\\uDFFF", "\\ud83d\\ud83d", "\\ud800\\u0041"][rng.below(6)];
		match rng.below(5) {
			0 => lit.insert_str(lit.len() - 1, esc),
			1 => lit.insert_str(1, esc),
			2 => {
				lit.insert_str(lit.len() - 1, esc);
				lit.insert_str(1, esc);
			}
			_ => {}
		}
		out.push_str(&lit);
	}
	let blank = |rng: &mut Rng, out: &mut String| {
		if rng.chance(1, 3) {
			out.push_str([" ", "\n", "\t ", "  "][rng.below(4)]);
		}
	};
	match r {
		RVal::Str(s) => string(rng, s, out),
		RVal::Arr(a) => {
			out.push('[');
			for (i, x) in a.iter().enumerate() {
				if i > 0 {
					out.push(',');
				}
				blank(rng, out);
				write_with_lone_surrogates(rng, x, out);
				blank(rng, out);
			}
			out.push(']');
		}
		RVal::Obj(e) => {
			out.push('{');
			for (i, (k, x)) in e.iter().enumerate() {
				if i > 0 {
					out.push(',');
				}
				blank(rng, out);
				string(rng, k, out);
				blank(rng, out);
				out.push(':');
				blank(rng, out);
				write_with_lone_surrogates(rng, x, out);
			}
			blank(rng, out);
			out.push('}');
		}
		other => pr::compact(other, out),
	}
}

pub fn run(cfg: &Config) -> i32 {
	let started = Instant::now();
	let thorough = cfg.tier == Tier::Thorough && !cfg.san;
	let mut total = Report::new();
	let seed = cfg.seed;
	let shards = 64usize;

	// generated documents with empty containers, duplicates and nesting
	let n = cfg.budget(600_000, 10_000_000);
	let rep = parallel(cfg.threads, shards, |i| {
		let mut rep = Report::new();
		let mut rng = Rng::new(seed).fork(0xc11 + i as u64);
		let mut rd = Reader::new();
		for k in 0..(n / shards as u64).max(1) {
			let p = ValueParams {
				max_depth: 1 + rng.below(5),
				max_width: 1 + rng.below(6),
				..Default::default()
			};
			let r = gen::gen_value(&mut rng, &p, 0);
			let style = WriteStyle {
				whitespace: rng.below(3) as u8,
				escapes: rng.below(2) as u8,
			};
			let text = gen::write_doc(&mut rng, &r, &style);
			rep.distinct_bytes(text.as_bytes());
			navigate(&mut rep, &mut rd, "generated", &text);
			if i == 0 && k < 2 {
				rep.sample(json!({"family": "generated", "doc": show(text.as_bytes())}));
			}
		}
		rep
	});
	total.merge(rep);

	// wide containers (60..300 children, beyond any chunk / inline size), nested one level
	let rep = parallel(cfg.threads, 16, |i| {
		let mut rep = Report::new();
		let mut rng = Rng::new(seed).fork(0xc11d + i as u64);
		let mut rd = Reader::new();
		for n in [60usize, 63, 64, 65, 100, 127, 128, 129, 200, 257, 300] {
			let inner = |rng: &mut Rng, j: usize| -> RVal {
				match j % 5 {
					0 => RVal::Num(j.to_string()),
					1 => RVal::Arr(vec![RVal::Null, RVal::Bool(true)]),
					2 => RVal::Obj(vec![("k".into(), RVal::Num("1".into())), ("k".into(), RVal::Arr(vec![]))]),
					3 => RVal::Str(gen::gen_string(rng)),
					_ => RVal::Obj(vec![]),
				}
			};
			let n = n + i % 3;
			let arr = RVal::Arr((0..n).map(|j| inner(&mut rng, j)).collect());
			let obj = RVal::Obj((0..n).map(|j| (if j % 7 == 0 { "dup".to_string() } else { format!("k{}", j) }, inner(&mut rng, j + 1))).collect());
			for r in [arr.clone(), obj.clone(), RVal::Arr(vec![obj, arr])] {
				let style = WriteStyle {
					whitespace: rng.below(3) as u8,
					escapes: 0,
				};
				let text = gen::write_doc(&mut rng, &r, &style);
				rep.distinct_bytes(text.as_bytes());
				navigate(&mut rep, &mut rd, "wide-containers", &text);
			}
			rep.max("widest_container", n as u64);
		}
		rep
	});
	total.merge(rep);

	// documents nested 100..260 levels with objects at every depth (index lookup code may switch strategy with depth)
	let rep = parallel(cfg.threads, 16, |i| {
		let mut rep = Report::new();
		let mut rng = Rng::new(seed).fork(0xc11e + i as u64);
		let mut rd = Reader::new();
		for depth in [100usize, 127, 128, 129, 130, 200, 260] {
			let mut r = RVal::Obj(vec![("x".into(), RVal::Num("1".into())), ("y".into(), RVal::Arr(vec![RVal::Null, RVal::Obj(vec![])]))]);
			for d in 0..depth {
				r = match (d + i) % 3 {
					0 => RVal::Arr(vec![r, RVal::Num(d.to_string())]),
					1 => RVal::Obj(vec![("a".into(), r), ("b".into(), RVal::Bool(true))]),
					_ => RVal::Obj(vec![("p".into(), RVal::Str("q".into())), ("a".into(), r), ("a".into(), RVal::Null)]),
				};
			}
			let style = WriteStyle { whitespace: rng.below(2) as u8, escapes: 0 };
			let text = gen::write_doc(&mut rng, &r, &style);
			rep.distinct_bytes(text.as_bytes());
			navigate(&mut rep, &mut rd, "deep-documents", &text);
			rep.max("deepest_navigated_nesting", depth as u64);
		}
		rep
	});
	total.merge(rep);

	// documents accepted under the lenient options only (unpaired surrogate escapes in strings and keys),
	// read with those options, also from sources declaring other character lengths
	let n = cfg.budget(60_000, 2_000_000);
	let rep = parallel(cfg.threads, shards, |i| {
		let mut rep = Report::new();
		let mut rng = Rng::new(seed).fork(0xc11f + i as u64);
		let mut rd = Reader::new();
		let lenient = Opts { truncated: true, invalid: true };
		for k in 0..(n / shards as u64).max(1) {
			let p = ValueParams {
				max_depth: 1 + rng.below(4),
				max_width: 1 + rng.below(5),
				..Default::default()
			};
			let r = gen::gen_value(&mut rng, &p, 0);
			let mut text = String::new();
			write_with_lone_surrogates(&mut rng, &r, &mut text);
			rep.distinct_bytes(text.as_bytes());
			navigate_with(&mut rep, &mut rd, "lone-surrogate-documents", &text, lenient, None);
			if k % 3 == 0 {
				let w = crate::real::ALL_WIDTHS[(k as usize / 3) % crate::real::ALL_WIDTHS.len()];
				navigate_with(&mut rep, &mut rd, "lone-surrogate-documents", &text, lenient, Some(w));
			}
			if i == 0 && k < 2 {
				rep.sample(json!({"family": "lone-surrogate-documents", "doc": show(text.as_bytes())}));
			}
		}
		rep
	});
	total.merge(rep);

	// every valid token document up to the bound (shared enumerator of the parser checks)
	{
		let flags = super::parsefam::Flags::default();
		let _ = flags;
		let docs = small_docs(if thorough { 8 } else { 7 });
		let docs = std::sync::Arc::new(docs);
		let d2 = docs.clone();
		let rep = parallel(cfg.threads, shards, move |i| {
			let mut rep = Report::new();
			let mut rd = Reader::new();
			let mut k = i;
			while k < d2.len() {
				navigate(&mut rep, &mut rd, "valid-token-documents", &d2[k]);
				rep.distinct_by_construction(1);
				k += shards;
			}
			rep
		});
		total.merge(rep);
		total.count("valid_token_documents", docs.len() as u64);
	}

	// byte inputs whose strings hold raw non-ASCII or ill-formed sequences, under every option record:
	// whatever parse_slice_with accepts, its code map must delimit the caller's bytes
	{
		let inserts: [&[u8]; 12] = [b"\xc3\xa9", b"\xf0\x9f\x98\x80", b"\xe2\x82\xac", b"\xff", b"\x80", b"\xc0\xaf", b"\xed\xa0\x80", b"\xf0\x9f\x98", b"\xc3", b"\xf4\x90\x80\x80", b"\xef\xbf\xbd", b"\xe2\x82"];
		let shapes: [(&[u8], &[u8]); 6] = [(b"[\"", b"\", 12, false]"), (b"{\"k", b"\":[1,2],\"z\":\"s\"}"), (b"\"", b"\""), (b"[[\"a\",{\"b\":\"", b"x\"}],null]"), (b"{\"a\":\"", b"\",\"a\":{\"q\":7}}"), (b" [ 1 , \"", b"\" , { } ] ")];
		let mut rep = Report::new();
		// the same documents behind a byte-order mark, behind blanks, and behind a NUL
		for prefix in [&b"\xef\xbb\xbf"[..], &b"\xef\xbb\xbf "[..], &b"\xfe\xff"[..], &b"\x00"[..], &b" \n"[..]] {
			for (head, tail) in shapes {
				let mut doc = prefix.to_vec();
				doc.extend_from_slice(head);
				doc.extend_from_slice(b"\xc3\xa9");
				doc.extend_from_slice(tail);
				for (t, inv) in [(false, false), (true, false), (false, true), (true, true)] {
					navigate_bytes(&mut rep, "byte-inputs-under-every-option-record", &doc, Opts { truncated: t, invalid: inv });
					rep.distinct_by_construction(1);
				}
			}
		}
		for ins in inserts {
			for (head, tail) in shapes {
				for twice in [false, true] {
					let mut doc = head.to_vec();
					doc.extend_from_slice(ins);
					if twice {
						doc.extend_from_slice(b"-");
						doc.extend_from_slice(ins);
					}
					doc.extend_from_slice(tail);
					for (t, inv) in [(false, false), (true, false), (false, true), (true, true)] {
						navigate_bytes(&mut rep, "byte-inputs-under-every-option-record", &doc, Opts { truncated: t, invalid: inv });
						rep.distinct_by_construction(1);
					}
				}
			}
		}
		total.merge(rep);
	}

	// conversions with a wrong-kind value planted at every position
	let n = cfg.budget(100_000, 2_000_000);
	let rep = parallel(cfg.threads, shards, |i| {
		let mut rep = Report::new();
		let mut rng = Rng::new(seed).fork(0xc11c + i as u64);
		for k in 0..(n / shards as u64).max(1) {
			conversions(&mut rep, &mut rng, (k as usize + i) % N_TYPES);
		}
		if i == 0 {
			rep.sample(json!({"family": "conversions", "types": ["Vec<Leaf>", "Vec<Vec<Leaf>>", "BTreeMap<u32,Leaf>", "Vec<BTreeMap<String,Vec<Leaf>>>", "Vec<Option<Box<Leaf>>>", "BTreeMap<String,Vec<Vec<Leaf>>>", "Vec<String>", "Vec<BTreeMap<u32,Vec<Option<Leaf>>>>"]}));
		}
		rep
	});
	total.merge(rep);

	// built-in scalar conversions: a value of every kind offered to every built-in target type at several offsets
	{
		let mut rep = Report::new();
		let (vals, cm) = {
			let (v, cm) = Value::parse_str("[null,true,7,\"s\",[],{},300,-1,1.5,70000,5000000000]").unwrap();
			(v.into_array().unwrap(), cm)
		};
		macro_rules! conv {
			($t:ty, $expected:expr, $name:expr, $accepts:expr) => {{
				for (vi, v) in vals.iter().enumerate() {
					for off in [0usize, 3, 999] {
						rep.evaluations += 1;
						rep.distinct_by_construction(1);
						let r = guard(|| <$t as TryFromJson>::try_from_json_at(v, &cm, off).map(|_| ()).map_err(|e| format!("{:?}", DebugMapped(&e))));
						let accepts: fn(&Value) -> bool = $accepts;
						let ok = match &r {
							Ok(Ok(())) => accepts(v),
							Ok(Err(d)) => !accepts(v) && d.starts_with(&format!("offset={} ", off)) && (d.contains("out-of-bounds") || d.contains(&format!("found={:?}", v.kind()))),
							Err(_) => false,
						};
						if !ok {
							rep.violation(
								concat!("C11:builtin-conversion:", $name),
								format!("{}::try_from_json_at(value #{} = {}, offset {}) gives {:?}", $name, vi, v, off, r),
								json!({"sub": "builtin", "type": $name}),
							);
						}
						let _ = $expected;
					}
				}
			}};
		}
		fn is_num_in<T: std::str::FromStr>(v: &Value) -> bool {
			v.as_number().map(|n| n.as_str().parse::<T>().is_ok()).unwrap_or(false)
		}
		conv!((), "null", "()", |v| v.is_null());
		conv!(bool, "boolean", "bool", |v| v.is_boolean());
		conv!(String, "string", "String", |v| v.is_string());
		conv!(u8, "number", "u8", |v| is_num_in::<u8>(v));
		conv!(u16, "number", "u16", |v| is_num_in::<u16>(v));
		conv!(u32, "number", "u32", |v| is_num_in::<u32>(v));
		conv!(u64, "number", "u64", |v| is_num_in::<u64>(v));
		conv!(usize, "number", "usize", |v| is_num_in::<usize>(v));
		conv!(i8, "number", "i8", |v| is_num_in::<i8>(v));
		conv!(i16, "number", "i16", |v| is_num_in::<i16>(v));
		conv!(i32, "number", "i32", |v| is_num_in::<i32>(v));
		conv!(i64, "number", "i64", |v| is_num_in::<i64>(v));
		conv!(isize, "number", "isize", |v| is_num_in::<isize>(v));
		conv!(f32, "number", "f32", |v| is_num_in::<f32>(v));
		conv!(f64, "number", "f64", |v| is_num_in::<f64>(v));
		conv!(Option<bool>, "boolean or null", "Option<bool>", |v| v.is_boolean() || v.is_null());
		conv!(Box<bool>, "boolean", "Box<bool>", |v| v.is_boolean());
		conv!(Option<Box<String>>, "string or null", "Option<Box<String>>", |v| v.is_string() || v.is_null());
		rep.count("family:builtin-scalar-conversions", rep.evaluations);
		total.merge(rep);
	}

	conclude(
		cfg,
		EvidenceMeta {
			id: "C11",
			rule: "a case is a parsed document; for every array and object in it (recursively, offsets taken from the reference pre-order numbering) iter_mapped, get_mapped, get_mapped_with_index, get_mapped_entries, get_mapped_entries_with_index and the four get_unique_mapped* are called for every key present (duplicated ones too) and an absent key, and each yielded offset must be the reference index of that very item / entry / key / value and code_map[offset] must span its text; get_fragment(i) for every i and four indices past the end, volume and count; conversions: 8 instantiations of the TryFromJson blanket impls over a leaf type of the harness on conforming documents with a wrong-kind value (or unparsable key) planted at every position in turn; documents: generated (empty containers, duplicates, nesting, multi-byte, escapes) and every valid token sequence up to 7 (thorough 8) tokens; distinct by hash / construction",
			exhaustive: false,
			assumptions: vec!["the reference numbering: a value has 1 fragment plus those of its children; an entry adds 2 (entry, key) before its value".into()],
			extra: json!({}),
		},
		total,
		started,
		if cfg.san { 2_000 } else { 50_000 },
	)
	.exit
}

/// All valid documents of at most `max` tokens over a small token set,
/// generated by walking the grammar.
fn small_docs(max: usize) -> Vec<String> {
	let scalars = ["\"a\"", "0", "true", "null", "{}", "[]"];
	let keys = ["\"a\"", "\"b\""];
	fn values(budget: usize, scalars: &[&str], keys: &[&str]) -> Vec<(String, usize)> {
		let mut out: Vec<(String, usize)> = Vec::new();
		if budget >= 1 {
			for s in scalars {
				let cost = if s.len() == 2 && (*s == "{}" || *s == "[]") { 2 } else { 1 };
				if cost <= budget {
					out.push((s.to_string(), cost));
				}
			}
		}
		if budget >= 3 {
			for (body, c) in seqs(budget - 2, scalars, keys, false) {
				out.push((format!("[{}]", body), c + 2));
			}
			for (body, c) in seqs(budget - 2, scalars, keys, true) {
				out.push((format!("{{{}}}", body), c + 2));
			}
		}
		out
	}
	fn seqs(budget: usize, scalars: &[&str], keys: &[&str], obj: bool) -> Vec<(String, usize)> {
		let mut out = Vec::new();
		let over = if obj { 2 } else { 0 };
		if budget < 1 + over {
			return out;
		}
		for (first, c1) in values(budget - over, scalars, keys) {
			let heads: Vec<String> = if obj { keys.iter().map(|k| format!("{}:{}", k, first)).collect() } else { vec![first.clone()] };
			let used = c1 + over;
			for h in &heads {
				out.push((h.clone(), used));
			}
			if budget >= used + 2 + over {
				for (rest, c2) in seqs(budget - used - 1, scalars, keys, obj) {
					for h in &heads {
						out.push((format!("{},{}", h, rest), used + 1 + c2));
					}
				}
			}
		}
		out
	}
	let mut v: Vec<String> = values(max, &scalars, &keys).into_iter().map(|x| x.0).collect();
	v.sort();
	v.dedup();
	v
}

pub fn replay_case(case: &serde_json::Value) -> Option<Vec<String>> {
	let mut rep = Report::new();
	if case.get("sub")?.as_str()? == "bytes" {
		let bytes: Vec<u8> = case.get("bytes")?.as_array()?.iter().filter_map(|b| b.as_u64().map(|b| b as u8)).collect();
		let o = case.get("options")?.as_array()?;
		navigate_bytes(&mut rep, "replay", &bytes, Opts { truncated: o.first()?.as_bool()?, invalid: o.get(1)?.as_bool()? });
		return Some(rep.violations.iter().map(|v| format!("[{}] {}", v.signature, v.what)).collect());
	}
	let doc = case.get("doc")?.as_str()?;
	match case.get("sub")?.as_str()? {
		"navigate" => {
			let mut rd = Reader::new();
			navigate(&mut rep, &mut rd, "replay", doc);
		}
		"conversion" => {
			// re-run the planted document: the expected offset is the (single) non-conforming fragment
			let which = case.get("type")?.as_u64()? as usize;
			let (v, cm) = Value::parse_str(doc).ok()?;
			let mut rd = Reader::new();
			let r = rd.read(doc.as_bytes(), true);
			let got = guard(|| convert(which, &v, &cm));
			// find the planted fragment: the number 7 or the key "not-a-number"
			let want = r.frags.iter().position(|f| &doc.as_bytes()[f.start..f.end] == b"7" || &doc.as_bytes()[f.start..f.end] == b"\"not-a-number\"");
			let ok = match (&got, want) {
				(Ok(Ok(())), None) => true,
				(Ok(Err(LErr::Kind { offset, .. })), Some(w)) | (Ok(Err(LErr::Key { offset })), Some(w)) => *offset == w,
				_ => false,
			};
			if !ok {
				rep.violation("C11:conversion-error-offset", format!("conversion reports {:?}, planted fragment is {:?}", got, want), case.clone());
			}
		}
		_ => return None,
	}
	Some(rep.violations.iter().map(|v| format!("[{}] {}", v.signature, v.what)).collect())
}

#[allow(dead_code)]
fn _unused(_: &RVal) -> String {
	doc_of(&RVal::Null)
}
