//! C03 — parsing is total, single-pass and uses stack independent of nesting depth.
//!
//! Monitors: panic capture around every parse; a character source that counts
//! pulls and records the stack address at each pull (stack spread); deep
//! documents parsed, traversed and dismantled in threads with a 64 KiB stack
//! inside child processes whose exit status is inspected.

use crate::gen::{self, DeepKind, ValueParams, WriteStyle, DEEP_KINDS};
use crate::monitor::{conclude, conv::drop_value_iter, guard, hex, parallel, show, Config, EvidenceMeta, Report, Tier};
use crate::oracle::rfc8259::{Opts, Reader};
use crate::real::{self, PErr};
use crate::rng::Rng;
use json_syntax::{Parse, Print, Value};
use serde_json::json;
use std::cell::Cell;
use std::time::{Duration, Instant};

pub const SMALL_STACK: usize = 64 * 1024;
/// A constant amount of stack (buffers, large frames) is legitimate; growth with the input is not.
/// 64 KiB of spread is reached by a growth of 1 byte per level at depth 65,536.
const SPREAD_LIMIT: usize = 64 * 1024;
/// A child that overflows the small stack is run again with this one: only a document that still
/// overflows here counts (8 bytes per level at depth 10^6), a constant need above 64 KiB does not.
pub const LARGE_STACK: usize = 8 * 1024 * 1024;

/// Character source that counts pulls and records the stack address of a
/// local at every pull.
struct Probe<'a> {
	chars: std::str::Chars<'a>,
	pulled: &'a Cell<usize>,
	after_end: &'a Cell<usize>,
	lo: &'a Cell<usize>,
	hi: &'a Cell<usize>,
}

impl<'a> Iterator for Probe<'a> {
	type Item = Result<char, std::convert::Infallible>;

	#[inline(never)]
	fn next(&mut self) -> Option<Self::Item> {
		let marker = 0u8;
		let addr = std::hint::black_box(&marker) as *const u8 as usize;
		if addr < self.lo.get() {
			self.lo.set(addr)
		}
		if addr > self.hi.get() {
			self.hi.set(addr)
		}
		match self.chars.next() {
			Some(c) => {
				self.pulled.set(self.pulled.get() + 1);
				Some(Ok(c))
			}
			None => {
				self.after_end.set(self.after_end.get() + 1);
				None
			}
		}
	}
}

pub struct ProbeResult {
	pub ok: bool,
	pub pulled: usize,
	pub spread: usize,
	pub error_offset: Option<usize>,
	pub fragments: usize,
	pub traversed: usize,
}

/// Parses `s` through the probing source; on success also drives
/// `Value::traverse` to completion and dismantles the value iteratively.
pub fn probe_parse(s: &str, o: Opts) -> Result<ProbeResult, String> {
	let pulled = Cell::new(0usize);
	let after_end = Cell::new(0usize);
	let lo = Cell::new(usize::MAX);
	let hi = Cell::new(0usize);
	let it = Probe {
		chars: s.chars(),
		pulled: &pulled,
		after_end: &after_end,
		lo: &lo,
		hi: &hi,
	};
	let r = guard(|| Value::parse_utf8_with(it, real::options(o)))?;
	let spread = if hi.get() >= lo.get() { hi.get() - lo.get() } else { 0 };
	match r {
		Ok((v, cm)) => {
			let fragments = cm.len();
			let traversed = guard(|| v.traverse().count())?;
			// the documented shorthands of the traversal must be iterative as well
			let values = guard(|| v.volume())?;
			let counted = guard(|| v.count(|_, f| f.is_value()))?;
			if values != counted || values > traversed {
				return Err(format!("volume() = {}, count(is_value) = {}, traversal has {} fragments", values, counted, traversed));
			}
			drop_value_iter(v);
			Ok(ProbeResult {
				ok: true,
				pulled: pulled.get(),
				spread,
				error_offset: None,
				fragments,
				traversed,
			})
		}
		Err(e) => Ok(ProbeResult {
			ok: false,
			pulled: pulled.get(),
			spread,
			error_offset: Some(e.position()),
			fragments: 0,
			traversed: 0,
		}),
	}
}

/// The same text from a source that is itself a user of the parser: every few
/// characters its `next()` parses a small document (with a key, a string and
/// a number) on the same thread before handing out the character. The outcome
/// must be the same as with a plain source.
fn reentrant_parse(s: &str, o: Opts) -> Result<bool, String> {
	let mut n = 0usize;
	let it = s.chars().map(move |c| {
		n += 1;
		if n % 3 == 1 {
			let inner = Value::parse_str("{\"k\":[\"v\\u00e9\",1.5e3,null]}");
			assert!(inner.is_ok(), "inner parse failed");
			let (v, cm) = inner.unwrap();
			let _ = (v.traverse().count(), cm.len(), v.compact_print().to_string());
		}
		Ok::<char, std::convert::Infallible>(c)
	});
	guard(|| Value::parse_utf8_with(it, real::options(o)).map(|(v, _)| drop_value_iter(v)).is_ok())
}

fn check_probe(rep: &mut Report, fam: &str, s: &str, o: Opts, want_ok: Option<bool>) {
	let nchars = s.chars().count();
	// sources that declare other character lengths (UTF-16, UTF-32, escaped, and zero-length characters)
	if s.len() <= 256 && (rep.evaluations % 8 == 4 || s.len() <= 6) {
		let w = real::ALL_WIDTHS[(rep.evaluations as usize / 8) % real::ALL_WIDTHS.len()];
		for fallible in [false, true] {
			rep.count("parses_from_declared_length_sources", 1);
			if let Err(PErr::Panic(p)) = real::parse_widths(s, o, w, fallible) {
				rep.violation(
					"C03:panic",
					format!("[{}] panic while parsing `{}` from a source declaring {:?} character lengths: {}", fam, show(s.as_bytes()), w, p),
					json!({"sub": "bytes", "input_hex": hex(s.as_bytes()), "options": [o.truncated, o.invalid]}),
				);
			}
		}
		let zero = guard(|| Value::parse_infallible_with(s.chars().map(|c| decoded_char::DecodedChar::new(c, 0)), real::options(o)).map(|(v, _)| drop_value_iter(v)).is_ok());
		if let Err(p) = zero {
			rep.violation("C03:panic", format!("[{}] panic while parsing `{}` from a source of zero-length characters: {}", fam, show(s.as_bytes()), p), json!({"sub": "bytes", "input_hex": hex(s.as_bytes()), "options": [o.truncated, o.invalid]}));
		}
	}
	// the typed `Parse` impls (bool, (), NumberBuf, String) entered directly on the same input
	if s.len() <= 64 && (rep.evaluations % 8 == 2 || s.len() <= 6) {
		for kind in ['t', 'n', '0', '"'] {
			for slice in [false, true] {
				rep.count("parses_through_the_typed_impls", 1);
				if let Err(PErr::Panic(p)) = real::parse_typed(kind, s, slice) {
					rep.violation(
						"C03:panic",
						format!("[{}] panic while parsing `{}` through the typed Parse impl for {} ({}): {}", fam, show(s.as_bytes()), match kind { 't' => "bool", 'n' => "()", '0' => "NumberBuf", _ => "String" }, if slice { "parse_slice" } else { "parse_str" }, p),
						json!({"sub": "bytes", "input_hex": hex(s.as_bytes()), "options": [o.truncated, o.invalid]}),
					);
				}
			}
		}
	}
	if s.len() <= 256 && (rep.evaluations % 8 == 0 || s.len() <= 6) {
		rep.count("parses_from_a_reentrant_source", 1);
		match (reentrant_parse(s, o), guard(|| Value::parse_str_with(s, real::options(o)).map(|(v, _)| drop_value_iter(v)).is_ok())) {
			(Ok(a), Ok(b)) if a == b => (),
			(a, b) => rep.violation(
				"C03:reentrant-source",
				format!("[{}] `{}` from a source that itself parses JSON between characters: {:?}; from a plain string: {:?}", fam, show(s.as_bytes()), a, b),
				json!({"sub": "bytes", "input_hex": hex(s.as_bytes()), "options": [o.truncated, o.invalid]}),
			),
		}
	}
	match probe_parse(s, o) {
		Err(p) => rep.violation(
			"C03:panic",
			format!("[{}] panic while parsing/traversing `{}`: {}", fam, show(s.as_bytes()), p),
			json!({"sub": "bytes", "input_hex": hex(s.as_bytes()), "options": [o.truncated, o.invalid]}),
		),
		Ok(r) => {
			rep.max("stack_spread_bytes", r.spread as u64);
			rep.count("characters_pulled", r.pulled as u64);
			if r.spread > SPREAD_LIMIT && !cfg!(miri) && std::env::var_os("JSV_SANITIZER").is_none() {
				rep.violation(
					"C03:stack-spread",
					format!("[{}] stack addresses seen by the character source spread over {} bytes (limit {}) on a {}-byte input", fam, r.spread, SPREAD_LIMIT, s.len()),
					json!({"sub": "bytes", "input_hex": hex(&s.as_bytes()[..s.len().min(4096)]), "options": [o.truncated, o.invalid]}),
				);
			}
			if r.ok && r.pulled != nchars {
				rep.violation(
					"C03:pull-count",
					format!("[{}] accepted a {}-character input after pulling {} characters", fam, nchars, r.pulled),
					json!({"sub": "bytes", "input_hex": hex(s.as_bytes()), "options": [o.truncated, o.invalid]}),
				);
			}
			if r.ok && r.traversed != r.fragments {
				rep.violation(
					"C03:traverse-count",
					format!("[{}] traversal yields {} fragments, code map has {}", fam, r.traversed, r.fragments),
					json!({"sub": "bytes", "input_hex": hex(s.as_bytes()), "options": [o.truncated, o.invalid]}),
				);
			}
			if let Some(w) = want_ok {
				if w != r.ok {
					// acceptance is C01's business; only noted here
					rep.count("acceptance_differs_from_reference(noted, decided by C01)", 1);
				}
			}
			if !r.ok {
				// one-character look-ahead: how far past the error offset did the parser read?
				if let Some(off) = r.error_offset {
					let consumed_chars = s.char_indices().take_while(|(i, _)| *i < off).count();
					if r.pulled > consumed_chars {
						rep.max("lookahead_characters_past_error_offset", (r.pulled - consumed_chars) as u64);
					}
				}
			}
		}
	}
}

/// All four option values on one byte input through `parse_slice_with`
/// (panic capture), plus the probing source when the input is text.
fn feed(rep: &mut Report, fam: &str, b: &[u8], rd: &mut Reader) {
	rep.evaluations += 1;
	for o in Opts::ALL {
		match real::parse_slice_with(b, o) {
			Err(real::PErr::Panic(p)) => rep.violation(
				"C03:panic",
				format!("[{}] parse_slice_with panicked on `{}`: {}", fam, show(b), p),
				json!({"sub": "bytes", "input_hex": hex(b), "options": [o.truncated, o.invalid]}),
			),
			Ok((v, _)) => {
				rep.count("accepted", 1);
				drop_value_iter(v)
			}
			Err(_) => rep.count("rejected", 1),
		}
	}
	if let Ok(s) = std::str::from_utf8(b) {
		let want = rd.read(b, false).accepts(Opts::STRICT);
		check_probe(rep, fam, s, Opts::STRICT, Some(want));
		check_probe(rep, fam, s, Opts { truncated: true, invalid: true }, None);
	}
}

fn random_bytes(rng: &mut Rng, dist: usize) -> Vec<u8> {
	let len = match rng.below(8) {
		0 => rng.below(4),
		1..=4 => rng.range(1, 40),
		5..=6 => rng.range(40, 400),
		_ => rng.range(400, 4096),
	};
	let structural = b"{}[],:\"\\ \n0123456789-+.eEtrufalsn/bu";
	let boundary = [0x00u8, 0x1f, 0x20, 0x22, 0x5c, 0x7f, 0x80, 0xbf, 0xc0, 0xc1, 0xc2, 0xdf, 0xe0, 0xed, 0xef, 0xf0, 0xf4, 0xf5, 0xff, 0xa0, 0x9f, 0x90, 0x8f];
	(0..len)
		.map(|_| match dist {
			0 => rng.below(256) as u8,
			1 => {
				if rng.chance(9, 10) {
					structural[rng.below(structural.len())]
				} else {
					rng.below(256) as u8
				}
			}
			_ => {
				if rng.chance(1, 2) {
					boundary[rng.below(boundary.len())]
				} else {
					structural[rng.below(structural.len())]
				}
			}
		})
		.collect()
}

/// A deep closed document followed by a failing source (ill-formed byte for
/// `parse_slice_with`, `Err` item for `parse_utf8_with`): the error path must
/// not depend on the nesting depth either. Returns (slice ok?, iterator ok?).
fn deep_then_stream_error(text: &str) -> Result<(), String> {
	let mut bytes = text.as_bytes().to_vec();
	bytes.extend_from_slice(b" \xff");
	match guard(|| Value::parse_slice_with(&bytes, real::options(Opts::STRICT))) {
		Ok(Err(_)) => (),
		Ok(Ok((v, _))) => {
			drop_value_iter(v);
			return Err("parse_slice_with accepted a document followed by an ill-formed byte".into());
		}
		Err(p) => return Err(format!("panic: {}", p)),
	}
	let n = text.chars().count();
	match real::parse_with_stream_error(text, n, Opts::STRICT) {
		Err(real::PErr::Stream(_)) => Ok(()),
		Ok((v, _)) => {
			drop_value_iter(v);
			Err("parse_utf8_with returned Ok although the source failed".into())
		}
		Err(real::PErr::Panic(p)) => Err(format!("panic: {}", p)),
		Err(_) => Ok(()),
	}
}

/// Lazy character sources with a truthful, astronomically large `size_hint`
/// that are rejected after a few characters: parsing must return `Err` after
/// finitely many pulls without panicking or allocating for the announced length.
fn huge_lazy_sources(rep: &mut Report) {
	let cases: [(&str, char); 6] = [("", ']'), ("[1,", '}'), ("{\"a\":", ':'), ("\"abc", '\u{1}'), ("tru", 'x'), ("[1 ", 'y')];
	for (prefix, filler) in cases {
		for o in [Opts::STRICT, Opts { truncated: true, invalid: true }] {
			rep.evaluations += 1;
			rep.distinct_by_construction(1);
			let pulled = Cell::new(0usize);
			// patience: a parser may read ahead of the offending character (that is not forbidden), but
			// not for ever; past 2^24 characters the run is abandoned as inconclusive
			let src = prefix
				.chars()
				.chain(std::iter::repeat(filler).take(1usize << 62))
				.inspect(|_| {
					pulled.set(pulled.get() + 1);
					if pulled.get() > 1 << 24 {
						panic!("JSV-PATIENCE");
					}
				})
				.map(Ok::<char, std::convert::Infallible>);
			let hint = src.size_hint().0;
			let r = guard(|| Value::parse_utf8_with(src, real::options(o)));
			let case = json!({"sub": "lazy", "prefix": prefix, "filler": filler.to_string()});
			match r {
				Ok(Err(_)) => {
					rep.count("huge_lazy_sources_rejected", 1);
					rep.max("pulls_from_a_huge_lazy_source", pulled.get() as u64);
				}
				Ok(Ok((v, _))) => {
					drop_value_iter(v);
					rep.violation("C03:lazy-source-accepted", format!("endless source `{}{}...` accepted", prefix, filler), case);
				}
				Err(p) if p.contains("JSV-PATIENCE") => rep.inconclusive.push(format!("lazy source `{}{}{}...`: more than 2^24 characters pulled without a verdict", prefix, filler, filler)),
				Err(p) => rep.violation("C03:panic", format!("parsing a lazy source `{}{}{}...` with size_hint {} panicked: {}", prefix, filler, filler, hint, p), case),
			}
		}
	}
	rep.count("family:huge-lazy-sources", 12);
}

/// Child mode: `jsv C03-child <kind-index> <depth> <stack-bytes>`; prints one
/// CHILD-RESULT line. A stack overflow kills the process (observed by the parent).
pub fn child(args: &[String]) -> i32 {
	let kind = DEEP_KINDS[args.first().and_then(|s| s.parse::<usize>().ok()).unwrap_or(0) % DEEP_KINDS.len()];
	let depth: usize = args.get(1).and_then(|s| s.parse().ok()).unwrap_or(1000);
	let stack: usize = args.get(2).and_then(|s| s.parse().ok()).unwrap_or(SMALL_STACK);
	let doc = gen::deep_doc(kind, depth);
	let text = String::from_utf8(doc).expect("deep documents are ASCII");
	let mut rd = Reader::new();
	let want = rd.read(text.as_bytes(), false).accepts(Opts::STRICT);
	let len = text.len();
	let h = std::thread::Builder::new()
		.stack_size(stack)
		.spawn(move || {
			let mut out = Vec::new();
			if want {
				match deep_then_stream_error(&text) {
					Ok(()) => out.push(json!({"stream_error_after_document": "handled"})),
					Err(m) => out.push(json!({"panic": format!("stream error after the document: {}", m)})),
				}
			}
			for o in [Opts::STRICT, Opts { truncated: true, invalid: true }] {
				match probe_parse(&text, o) {
					Ok(r) => out.push(json!({
						"ok": r.ok, "pulled": r.pulled, "spread": r.spread, "fragments": r.fragments, "traversed": r.traversed,
						"chars": text.chars().count(),
					})),
					Err(p) => out.push(json!({"panic": p})),
				}
			}
			out
		})
		.expect("spawn");
	match h.join() {
		Ok(out) => {
			println!(
				"CHILD-RESULT {}",
				json!({"kind": format!("{:?}", kind), "depth": depth, "stack": stack, "bytes": len, "reference_accepts": want, "runs": out})
			);
			0
		}
		Err(_) => {
			println!("CHILD-RESULT {}", json!({"kind": format!("{:?}", kind), "depth": depth, "panic": "thread panicked"}));
			3
		}
	}
}

pub(crate) fn run_child(kind_idx: usize, depth: usize, stack: usize, timeout: Duration) -> Result<(Option<i32>, Option<i32>, String), String> {
	use std::os::unix::process::ExitStatusExt;
	use std::process::{Command, Stdio};
	let exe = std::env::current_exe().map_err(|e| e.to_string())?;
	let mut child = Command::new(exe)
		.arg("C03-child")
		.arg(kind_idx.to_string())
		.arg(depth.to_string())
		.arg(stack.to_string())
		.stdout(Stdio::piped())
		.stderr(Stdio::piped())
		.spawn()
		.map_err(|e| e.to_string())?;
	let started = Instant::now();
	loop {
		match child.try_wait() {
			Ok(Some(status)) => {
				let mut out = String::new();
				if let Some(mut so) = child.stdout.take() {
					use std::io::Read;
					let _ = so.read_to_string(&mut out);
				}
				let mut err = String::new();
				if let Some(mut se) = child.stderr.take() {
					use std::io::Read;
					let _ = se.read_to_string(&mut err);
				}
				return Ok((status.code(), status.signal(), format!("{}\n{}", out, err)));
			}
			Ok(None) => {
				if started.elapsed() > timeout {
					let _ = child.kill();
					let _ = child.wait();
					return Err("timeout".into());
				}
				std::thread::sleep(Duration::from_millis(5));
			}
			Err(e) => return Err(e.to_string()),
		}
	}
}

fn deep_jobs(cfg: &Config, total: &mut Report, thorough: bool) {
	let depths: &[usize] = if cfg.san {
		&[1_000, 10_000, 100_000]
	} else if thorough {
		&[1_000, 10_000, 100_000, 1_000_000, 2_000_000]
	} else {
		&[1_000, 10_000, 100_000, 1_000_000]
	};
	let mut jobs = Vec::new();
	for &d in depths {
		for k in 0..DEEP_KINDS.len() {
			jobs.push((k, d));
		}
	}
	// the flat shapes also with exactly 2^16 and 2^17 repetitions (counters and block sizes of that width)
	for k in 14..DEEP_KINDS.len() {
		jobs.push((k, 65_536));
		jobs.push((k, 131_072));
		jobs.push((k, 65_535));
	}
	let jobs = std::sync::Arc::new(jobs);
	let j2 = jobs.clone();
	let rep = parallel(cfg.threads, jobs.len(), move |i| {
		let (k, depth) = j2[i];
		let kind: DeepKind = DEEP_KINDS[k];
		let mut rep = Report::new();
		rep.evaluations += 1;
		rep.distinct_by_construction(1);
		rep.count("deep_documents_in_small_stack_children", 1);
		rep.max("deepest_nesting_levels", depth as u64);
		let case = json!({"sub": "deep", "kind_index": k, "kind": format!("{:?}", kind), "depth": depth, "stack": SMALL_STACK});
		match run_child(k, depth, SMALL_STACK, Duration::from_secs(120)) {
			Err(e) if e == "timeout" => {
				// bounded progress: re-run alone with a generous stack before calling it non-termination
				match run_child(k, depth, 1 << 30, Duration::from_secs(120)) {
					Err(_) => rep.violation(
						"C03:no-return",
						format!("{:?} nested {} levels: parse did not return within 120 s (twice; documents of this size take < 1 s)", kind, depth),
						case,
					),
					Ok(_) => rep.inconclusive.push(format!("{:?}/{}: child timed out once, finished on re-run", kind, depth)),
				}
			}
			Err(e) => rep.inconclusive.push(format!("cannot run child: {}", e)),
			Ok((code, signal, out)) => {
				let mut out = out;
				let mut line = out.lines().find(|l| l.starts_with("CHILD-RESULT ")).map(|l| l.to_string());
				if (code != Some(0) || line.is_none()) && out.contains("overflowed its stack") {
					// the property is about growth, not about the constant: the same document with 8 MiB
					if let Ok((Some(0), _, out2)) = run_child(k, depth, LARGE_STACK, Duration::from_secs(120)) {
						if let Some(l2) = out2.lines().find(|l| l.starts_with("CHILD-RESULT ")).map(|l| l.to_string()) {
							rep.count("children_that_needed_more_than_the_small_stack(noted: constant stack use above 64 KiB)", 1);
							line = Some(l2);
							out = out2;
						}
					}
				}
				let _ = &out;
				if line.is_none() {
					let overflow = out.contains("overflowed its stack");
					rep.violation(
						if overflow { "C03:stack-overflow".to_string() } else { format!("C03:child-died:{:?}:{:?}", code, signal) },
						format!(
							"{:?} nested {} levels in a {} KiB thread: child exit code {:?} signal {:?}{}",
							kind,
							depth,
							SMALL_STACK / 1024,
							code,
							signal,
							if overflow { format!(" (stack overflow reported by the runtime, also with a stack of {} MiB)", LARGE_STACK >> 20) } else { String::new() },
						),
						case,
					);
				} else if let Ok(j) = serde_json::from_str::<serde_json::Value>(&line.clone().unwrap()["CHILD-RESULT ".len()..]) {
					let want = j["reference_accepts"].as_bool().unwrap_or(false);
					for (ri, run) in j["runs"].as_array().cloned().unwrap_or_default().iter().enumerate() {
						if let Some(p) = run.get("panic") {
							rep.violation("C03:panic-deep", format!("{:?} nested {} levels: panic {}", kind, depth, p), case.clone());
							continue;
						}
						if run.get("stream_error_after_document").is_some() {
							rep.count("deep_documents_followed_by_a_stream_error", 1);
							continue;
						}
						let spread = run["spread"].as_u64().unwrap_or(0);
						rep.max("stack_spread_bytes_deep", spread);
						rep.count("characters_pulled", run["pulled"].as_u64().unwrap_or(0));
						if spread as usize > SPREAD_LIMIT && std::env::var_os("JSV_SANITIZER").is_none() {
							rep.violation(
								"C03:stack-spread-deep",
								format!("{:?} nested {} levels: stack addresses at the character source spread over {} bytes", kind, depth, spread),
								case.clone(),
							);
						}
						let ok = run["ok"].as_bool().unwrap_or(false);
						if ok {
							if run["pulled"] != run["chars"] {
								rep.violation("C03:pull-count", format!("{:?}/{}: pulled {} of {} characters", kind, depth, run["pulled"], run["chars"]), case.clone());
							}
							if run["traversed"] != run["fragments"] {
								rep.violation("C03:traverse-count", format!("{:?}/{}: traversed {} fragments, map has {}", kind, depth, run["traversed"], run["fragments"]), case.clone());
							}
							rep.max("fragments_traversed_iteratively", run["traversed"].as_u64().unwrap_or(0));
						}
						if ri == 0 && ok != want {
							rep.count("acceptance_differs_from_reference(noted, decided by C01)", 1);
						}
					}
					if i % 13 == 0 {
						rep.sample(json!({"family": "deep", "kind": format!("{:?}", kind), "depth": depth, "stack_bytes": SMALL_STACK, "child": j}));
					}
				} else {
					rep.inconclusive.push(format!("unparsable child output for {:?}/{}", kind, depth));
				}
			}
		}
		rep
	});
	total.merge(rep);
}

/// One case of the family "long runs of one ill-formed byte": `l` copies of byte `b` at the start of
/// the input (placement 0), inside a string (1) or inside a string after 5000 bytes of valid text (2),
/// parsed by `parse_slice_with` in its own thread under a watchdog.
fn byte_run_case(rep: &mut Report, b: u8, l: usize, place: usize, o: Opts) {
	let mut input: Vec<u8> = match place {
		0 => Vec::new(),
		1 => b"[\"a".to_vec(),
		_ => {
			let mut p = b"[".to_vec();
			while p.len() < 5000 {
				p.extend_from_slice(b"10, ");
			}
			p.extend_from_slice(b"\"");
			p
		}
	};
	input.extend(std::iter::repeat(b).take(l));
	input.extend_from_slice(b"\"]");
	rep.evaluations += 1;
	rep.distinct_by_construction(1);
	rep.count("family:long-runs-of-one-ill-formed-byte", 1);
	let case = json!({"sub": "byte-run", "byte": b, "length": l, "placement": place, "options": [o.truncated, o.invalid]});
	let data = input.clone();
	let (tx, rx) = std::sync::mpsc::channel();
	let spawned = std::thread::Builder::new().stack_size(8 << 20).spawn(move || {
		let r = guard(|| real::parse_slice_with(&data, o).is_ok());
		let _ = tx.send(r);
	});
	if spawned.is_err() {
		rep.inconclusive.push("could not spawn the watchdog thread of the byte-run family".into());
		return;
	}
	match rx.recv_timeout(Duration::from_secs(120)) {
		Ok(Ok(_)) => rep.count("byte_runs_decided", 1),
		Ok(Err(p)) => rep.violation("C03:panic", format!("[long-runs-of-one-ill-formed-byte] parse_slice_with panicked on {} x 0x{:02x} (placement {}): {}", l, b, place, p), case),
		Err(_) => rep.violation(
			"C03:no-return",
			format!("[long-runs-of-one-ill-formed-byte] parse_slice_with did not return within 120 s on a {}-byte input ({} x 0x{:02x}, placement {}); inputs of this size take milliseconds", input.len(), l, b, place),
			case,
		),
	}
}

pub fn run(cfg: &Config) -> i32 {
	let started = Instant::now();
	let thorough = cfg.tier == Tier::Thorough;
	let mut total = Report::new();
	let seed = cfg.seed;

	// random bytes, three distributions
	let n_random = cfg.budget(400_000, 20_000_000);
	let shards = 64usize;
	let rep = parallel(cfg.threads, shards, |i| {
		let mut rep = Report::new();
		let mut rng = Rng::new(seed).fork(0xc03 + i as u64);
		let mut rd = Reader::new();
		for k in 0..(n_random / shards as u64).max(1) {
			let b = random_bytes(&mut rng, (k % 3) as usize);
			rep.distinct_bytes(&b);
			feed(&mut rep, "random-bytes", &b, &mut rd);
			if i == 0 && k < 3 {
				rep.sample(json!({"family": "random-bytes", "input": show(&b)}));
			}
		}
		rep.count("family:random-bytes", (n_random / shards as u64).max(1));
		rep
	});
	total.merge(rep);

	// long runs of one byte that is not a character by itself (continuation bytes, lead bytes of every
	// length, 0xFF), of lengths around 2^12 and 2^16, at the start of the input, inside a string and after
	// a few KiB of valid text; each parse runs in its own thread under a watchdog
	if !cfg!(miri) {
		let runs: Vec<(u8, usize, usize)> = {
			let mut v = Vec::new();
			let lens: &[usize] = if cfg.san { &[4096, 65_537] } else { &[4095, 4096, 4097, 8192, 12_288, 65_535, 65_536, 65_537, 200_000] };
			for b in [0x80u8, 0xbf, 0xc3, 0xe2, 0xed, 0xf0, 0xf4, 0xff] {
				for &l in lens {
					for place in 0..3usize {
						v.push((b, l, place));
					}
				}
			}
			v
		};
		let rep = parallel(cfg.threads, runs.len(), |i| {
			let (b, l, place) = runs[i];
			let mut rep = Report::new();
			for o in [Opts::STRICT, Opts { truncated: true, invalid: true }] {
				byte_run_case(&mut rep, b, l, place, o);
			}
			rep
		});
		total.merge(rep);
	}

	// random character sequences (always valid UTF-8, so every one goes through the probing source)
	let n_chars = cfg.budget(200_000, 10_000_000);
	let rep = parallel(cfg.threads, shards, |i| {
		let mut rep = Report::new();
		let mut rng = Rng::new(seed).fork(0xc0e + i as u64);
		let mut rd = Reader::new();
		let structural: Vec<char> = "{}[],:\"\\ \n\t0123456789-+.eEtrufalsn/bu".chars().collect();
		for k in 0..(n_chars / shards as u64).max(1) {
			let len = match rng.below(8) {
				0 => rng.below(4),
				1..=5 => rng.range(1, 30),
				_ => rng.range(30, 600),
			};
			let s: String = (0..len)
				.map(|_| {
					if rng.chance(3, 4) {
						structural[rng.below(structural.len())]
					} else {
						gen::gen_char(&mut rng)
					}
				})
				.collect();
			rep.distinct_bytes(s.as_bytes());
			feed(&mut rep, "random-characters", s.as_bytes(), &mut rd);
			if i == 0 && k < 2 {
				rep.sample(json!({"family": "random-characters", "input": show(s.as_bytes())}));
			}
		}
		rep.count("family:random-characters", (n_chars / shards as u64).max(1));
		rep
	});
	total.merge(rep);

	// \u escapes at the boundaries of the surrogate ranges (and of the other classes the string reader
	// distinguishes): every sequence of one, two and three escapes over a boundary set, complete and cut
	// short, as a string value and as a key. Arithmetic on an escape that slipped into the wrong range
	// (`low - 0xdc00` with low = 0xdbff) panics only in a build with overflow checks, and only for these.
	{
		const B: [&str; 19] = [
			"0000", "001f", "0020", "007f", "0080", "d7ff", "d800", "d801", "dbfe", "dbff", "dc00", "dc01", "dffe", "dfff", "e000", "fffe",
			"ffff", "DBFF", "DC00",
		];
		let triples = !cfg!(miri) && !(cfg.san && !thorough);
		let n_first = B.len();
		let rep = parallel(cfg.threads, n_first, |i| {
			let mut rep = Report::new();
			let mut rd = Reader::new();
			let mut n = 0u64;
			let mut bodies: Vec<String> = vec![format!("\\u{}", B[i])];
			for b in B {
				bodies.push(format!("\\u{}\\u{}", B[i], b));
				// second escape cut short, replaced by another escape kind, or separated by a raw character
				bodies.push(format!("\\u{}\\u{}", B[i], &b[..2]));
				bodies.push(format!("\\u{}\\n\\u{}", B[i], b));
				bodies.push(format!("\\u{}x\\u{}", B[i], b));
				if triples {
					for c in B {
						bodies.push(format!("\\u{}\\u{}\\u{}", B[i], b, c));
					}
				}
			}
			bodies.push(format!("\\u{}\\u", B[i]));
			bodies.push(format!("\\u{}\\", B[i]));
			for body in &bodies {
				for doc in [format!("\"{}\"", body), format!("{{\"{}\":0}}", body), format!("\"{}", body)] {
					feed(&mut rep, "escape-boundaries", doc.as_bytes(), &mut rd);
					n += 1;
				}
			}
			if i == 9 {
				rep.sample(json!({"family": "escape-boundaries", "input": show(format!("\"{}\"", bodies[2]).as_bytes())}));
			}
			rep.distinct_by_construction(n);
			rep.count("family:escape-boundaries", n);
			rep
		});
		total.merge(rep);
	}

	// corpus: every prefix and single-byte edits
	let corpus = std::sync::Arc::new(gen::load_corpus(&cfg.repo_dir));
	if corpus.is_empty() {
		total.inconclusive.push("corpus not found".into());
	}
	let c2 = corpus.clone();
	let rep = parallel(cfg.threads, corpus.len(), move |i| {
		let mut rep = Report::new();
		let mut rng = Rng::new(seed).fork(0xc0c + i as u64);
		let mut rd = Reader::new();
		let (_, data) = &c2[i];
		let mut n = 0u64;
		let step = if data.len() > 2048 { data.len() / 64 } else { 1 };
		let mut p = 0;
		while p <= data.len() {
			feed(&mut rep, "corpus-prefixes-edits", &data[..p], &mut rd);
			n += 1;
			if p < data.len() && data.len() <= 2048 {
				let reps = if thorough { 8 } else { 2 };
				for _ in 0..reps {
					let mut b = data.clone();
					b[p] = *rng.pick(&gen::INTERESTING_BYTES);
					feed(&mut rep, "corpus-prefixes-edits", &b, &mut rd);
					let mut b = data.clone();
					b.insert(p, *rng.pick(&gen::INTERESTING_BYTES));
					feed(&mut rep, "corpus-prefixes-edits", &b, &mut rd);
					n += 2;
				}
				let mut b = data.clone();
				b.remove(p);
				feed(&mut rep, "corpus-prefixes-edits", &b, &mut rd);
				n += 1;
			}
			p += step;
		}
		rep.distinct_by_construction(n / 2);
		rep.count("family:corpus-prefixes-edits", n);
		rep
	});
	total.merge(rep);

	// generated documents, intact and damaged
	let n_gen = cfg.budget(100_000, 5_000_000);
	let rep = parallel(cfg.threads, shards, |i| {
		let mut rep = Report::new();
		let mut rng = Rng::new(seed).fork(0xc0d + i as u64);
		let mut rd = Reader::new();
		for _ in 0..(n_gen / shards as u64).max(1) {
			let p = ValueParams {
				max_depth: 1 + rng.below(7),
				max_width: 2 + rng.below(6),
				..Default::default()
			};
			let v = gen::gen_value(&mut rng, &p, 0);
			let style = WriteStyle {
				whitespace: rng.below(3) as u8,
				escapes: rng.below(2) as u8,
			};
			let mut b = gen::write_doc(&mut rng, &v, &style).into_bytes();
			if rng.chance(2, 3) {
				for _ in 0..rng.range(1, 3) {
					b = gen::mutate_bytes(&mut rng, &b);
				}
			}
			rep.distinct_bytes(&b);
			feed(&mut rep, "generated", &b, &mut rd);
		}
		rep.count("family:generated", (n_gen / shards as u64).max(1));
		rep
	});
	total.merge(rep);

	// escapes with non-ASCII characters in the hex positions, every option value
	{
		let mut rep = Report::new();
		let mut rd = Reader::new();
		let bs = '\\';
		let odd = ['\u{e9}', '\u{100}', '\u{660}', '\u{ff11}', '\u{20ac}', '\u{1f600}', '\u{10ffff}', 'g', 'G', ' ', '"'];
		for pos in 0..4 {
			for c in odd {
				let mut hexd: Vec<char> = "12aF".chars().collect();
				hexd[pos] = c;
				let body: String = hexd.into_iter().collect();
				for shape in [format!("\"{}u{}\"", bs, body), format!("{{\"{}u{}\":1}}", bs, body), format!("[\"{}uD800{}u{}\"]", bs, bs, body)] {
					feed(&mut rep, "odd-hex-digits", shape.as_bytes(), &mut rd);
					rep.distinct_by_construction(1);
				}
			}
		}
		rep.count("family:odd-hex-digits", rep.evaluations);
		total.merge(rep);
	}

	{
		let mut rep = Report::new();
		huge_lazy_sources(&mut rep);
		total.merge(rep);
	}
	let dev_profile = std::env::var("JSV_SANITIZER").map(|v| v == "debug").unwrap_or(false);
	if !cfg.san || dev_profile {
		// in the dev-profile pass the library is compiled without optimizations: recursion that an
		// optimizer turns into a loop overflows here, as it would in a user's debug build
		deep_jobs(cfg, &mut total, thorough);
	} else {
		total.note("sanitizer pass: deep-nesting children skipped (instrumented frames are larger; stack depth is decided by the native and dev-profile passes)");
	}

	conclude(
		cfg,
		EvidenceMeta {
			id: "C03",
			rule: "every input is parsed under all four option values with panics captured; text inputs additionally go through a character source that counts pulls and records the stack address at each pull, then Value::traverse is driven to completion; deep documents (14 nested shapes and 12 flat shapes - one lexical element such as a blank, an escape, a digit, an item or an entry repeated that many times - x depths 10^3..10^6, thorough 2*10^6) are parsed, traversed and dismantled in 64 KiB threads inside child processes whose exit status is inspected (an overflow counts when it also happens with 8 MiB); non-trivial = non-empty input; random/generated inputs counted by hash, deep documents and corpus edits by construction",
			exhaustive: false,
			assumptions: vec![
				"dropping a returned deeply nested Value is the caller's business and is done iteratively by the harness; what the parser itself drops (partial values on error paths) is part of the observation".into(),
				"stack spread limit 64 KiB (a constant amount of stack is legitimate): a per-level growth of 1 byte shows at depth 10^5 and beyond; a child that overflows the 64 KiB stack is run again with 8 MiB and only counts if it overflows there too (8 bytes per level at depth 10^6)".into(),
				"non-termination is decided as bounded progress: no return within 120 s twice, for documents that take < 1 s".into(),
			],
			extra: json!({"small_stack_bytes": SMALL_STACK, "spread_limit_bytes": SPREAD_LIMIT}),
		},
		total,
		started,
		if cfg.san { 1_000 } else { 100_000 },
	)
	.exit
}

/// Replays one recorded case.
pub fn replay_case(cfg: &Config, case: &serde_json::Value) -> Option<Vec<String>> {
	let mut rep = Report::new();
	match case.get("sub").and_then(|s| s.as_str()) {
		Some("bytes") => {
			let b = crate::monitor::unhex(case.get("input_hex").and_then(|s| s.as_str()).unwrap_or(""));
			let mut rd = Reader::new();
			feed(&mut rep, "replay", &b, &mut rd);
		}
		Some("deep") => {
			let k = case.get("kind_index").and_then(|x| x.as_u64()).unwrap_or(0) as usize;
			let d = case.get("depth").and_then(|x| x.as_u64()).unwrap_or(1000) as usize;
			match run_child(k, d, SMALL_STACK, Duration::from_secs(120)) {
				Ok((Some(0), _, out)) if out.contains("CHILD-RESULT") && !out.contains("\"panic\"") => (),
				Ok((_, _, out)) if out.contains("overflowed its stack") => match run_child(k, d, LARGE_STACK, Duration::from_secs(120)) {
					Ok((Some(0), _, out)) if out.contains("CHILD-RESULT") && !out.contains("\"panic\"") => (),
					other => rep.violation("C03:replay-deep", format!("child: {:?}", other.map(|x| (x.0, x.1))), case.clone()),
				},
				other => rep.violation("C03:replay-deep", format!("child: {:?}", other.map(|x| (x.0, x.1))), case.clone()),
			}
		}
		Some("byte-run") => {
			let o = case.get("options").and_then(|x| x.as_array()).cloned().unwrap_or_default();
			byte_run_case(
				&mut rep,
				case.get("byte").and_then(|x| x.as_u64()).unwrap_or(0x80) as u8,
				case.get("length").and_then(|x| x.as_u64()).unwrap_or(4096) as usize,
				case.get("placement").and_then(|x| x.as_u64()).unwrap_or(0) as usize,
				Opts { truncated: o.first().and_then(|x| x.as_bool()).unwrap_or(false), invalid: o.get(1).and_then(|x| x.as_bool()).unwrap_or(false) },
			);
		}
		_ => return None,
	}
	let _ = cfg;
	Some(rep.violations.iter().map(|v| format!("[{}] {}", v.signature, v.what)).collect())
}
