//! serde checks: C16 (typed data round-trips through Value and agrees with
//! serde_json), C17 (Value's own Serialize/Deserialize), C18 (conversion
//! to/from serde_json::Value).

use crate::gen;
use crate::monitor::conv::{from_rval, to_rval};
use crate::monitor::{conclude, fnv, guard, parallel, show, Config, EvidenceMeta, Report, Tier};
use crate::oracle::jcs::nearest_double;
use crate::oracle::print as pr;
use crate::oracle::rfc8259::{RVal, Reader};
use crate::rng::Rng;
use json_syntax::{Parse, Value};
use serde::{Deserialize, Serialize};
use serde_json::json;
use std::collections::BTreeMap;
use std::time::Instant;

fn doc_of(v: &RVal) -> String {
	let mut s = String::new();
	pr::compact(v, &mut s);
	s
}

// ---------------------------------------------------------------------------
// the type family of C16
// ---------------------------------------------------------------------------

/// f64 compared by bits, except that the two zeros are identified.
#[derive(Clone, Copy, Debug, Serialize, Deserialize)]
#[serde(transparent)]
pub struct F64(pub f64);
impl PartialEq for F64 {
	fn eq(&self, o: &Self) -> bool {
		self.0.to_bits() == o.0.to_bits() || (self.0 == 0.0 && o.0 == 0.0)
	}
}

#[derive(Clone, Copy, Debug, Serialize, Deserialize)]
#[serde(transparent)]
pub struct F32(pub f32);
impl PartialEq for F32 {
	fn eq(&self, o: &Self) -> bool {
		self.0.to_bits() == o.0.to_bits() || (self.0 == 0.0 && o.0 == 0.0)
	}
}

#[derive(Clone, Debug, PartialEq, Serialize, Deserialize)]
pub struct UnitStruct;

#[derive(Clone, Debug, PartialEq, Serialize, Deserialize)]
pub struct Newtype(pub i64);

#[derive(Clone, Debug, PartialEq, Serialize, Deserialize)]
pub struct TupleStruct(pub u8, pub String, pub Option<bool>);

#[derive(Clone, Debug, PartialEq, Serialize, Deserialize)]
pub struct NewtypeSeq(pub Vec<u32>);

#[derive(Clone, Debug, PartialEq, Serialize, Deserialize)]
pub struct NewtypeNested(pub Vec<Vec<u8>>);

#[derive(Clone, Debug, PartialEq, Serialize, Deserialize)]
pub struct NewtypeTuple1(pub (u8,));

#[derive(Clone, Debug, PartialEq, Serialize, Deserialize)]
pub struct NewtypeArr1(pub [i8; 1]);

#[derive(Clone, Debug, PartialEq, Serialize, Deserialize)]
pub struct NewtypeOpt(pub Option<Vec<u8>>);

#[derive(Clone, Debug, PartialEq, Serialize, Deserialize)]
pub struct NewtypeMap(pub BTreeMap<String, u8>);

#[derive(Clone, Debug, PartialEq, Serialize, Deserialize)]
pub struct NewtypeEnum(pub UnitOnly);

#[derive(Clone, Debug, PartialEq, Serialize, Deserialize)]
pub struct NewtypeStr(pub String);

#[derive(Clone, Debug, PartialEq, Serialize, Deserialize)]
pub struct NewtypeUnit(pub ());

#[derive(Clone, Debug, PartialEq, Serialize, Deserialize)]
pub struct Tuple1Struct(pub Vec<i8>, pub ());

#[derive(Clone, Debug, PartialEq, Serialize, Deserialize)]
pub struct Named {
	pub a: i32,
	pub b: String,
	pub c: Vec<u16>,
	pub d: Option<Box<Named>>,
	pub e: (),
	pub f: char,
	pub g: F64,
	pub h: F32,
	#[serde(rename = "renamed field")]
	pub i: bool,
	pub j: (i8, u64),
	pub k: [i16; 2],
}

/// Shapes with nothing inside: a tuple struct without fields, zero-length
/// arrays, variants with an empty tuple payload.
#[derive(Clone, Debug, PartialEq, Serialize, Deserialize)]
pub struct EmptyTupleStruct();

#[derive(Clone, Debug, PartialEq, Serialize, Deserialize)]
pub enum EdgeEnum {
	EmptyTuple(),
	One(((),)),
	UnitNewtype(()),
	Arr0([u8; 0]),
	Marker(EmptyTupleStruct),
}

#[derive(Clone, Debug, PartialEq, Serialize, Deserialize)]
pub struct EdgeShapes {
	pub a0: [i32; 0],
	pub m: EmptyTupleStruct,
	pub v: Vec<[u8; 0]>,
	pub o: Option<[u8; 0]>,
	pub e: EdgeEnum,
	pub t: ((), [String; 0], EmptyTupleStruct),
	pub k: BTreeMap<String, EmptyTupleStruct>,
}

/// Fields that are left out of the rendering when they are empty (absent keys come back as the
/// default), in a struct and in a struct variant.
#[derive(Clone, Debug, PartialEq, Serialize, Deserialize)]
pub struct Skipping {
	pub a: u8,
	#[serde(skip_serializing_if = "Option::is_none")]
	pub b: Option<String>,
	#[serde(default, skip_serializing_if = "Vec::is_empty")]
	pub c: Vec<u8>,
	#[serde(skip_serializing_if = "Option::is_none")]
	pub d: Option<F64>,
}

#[derive(Clone, Debug, PartialEq, Serialize, Deserialize)]
pub enum SkippingEnum {
	V {
		#[serde(skip_serializing_if = "Option::is_none")]
		x: Option<i8>,
		y: bool,
		#[serde(skip_serializing_if = "Option::is_none")]
		z: Option<Box<Skipping>>,
	},
	#[serde(rename = "all")]
	AllOptional {
		#[serde(skip_serializing_if = "Option::is_none")]
		p: Option<u8>,
		#[serde(default, skip_serializing_if = "String::is_empty")]
		q: String,
	},
}

/// A linked chain (nesting as deep as the chain is long) and a tree of lists.
#[derive(Clone, Debug, PartialEq, Serialize, Deserialize)]
pub struct Chain {
	pub id: u32,
	pub next: Option<Box<Chain>>,
}

#[derive(Clone, Debug, PartialEq, Serialize, Deserialize)]
pub enum Tree {
	Leaf(i8),
	List(Vec<Tree>),
}

/// Variant names that differ in capitalization only.
#[derive(Clone, Copy, Debug, PartialEq, Eq, PartialOrd, Ord, Serialize, Deserialize)]
pub enum CaseEnum {
	Kb,
	KB,
	Mb(u8),
	MB(u8),
	#[serde(rename = "kb")]
	Lower,
}

#[derive(Clone, Debug, PartialEq, Serialize, Deserialize)]
pub enum E {
	Unit,
	#[serde(rename = "re-named")]
	Renamed,
	Newtype(i16),
	NewtypeOpt(Option<u8>),
	NewtypeStr(String),
	Tuple(i8, String),
	Tuple3(bool, (), F64),
	Struct {
		x: u32,
		y: Vec<E>,
	},
	EmptyStruct {},
	Nested(Box<E>),
	Map(BTreeMap<String, E>),
}

#[derive(Clone, Copy, Debug, PartialEq, Eq, PartialOrd, Ord, Serialize, Deserialize)]
pub enum UnitOnly {
	A,
	B,
	#[serde(rename = "c-c")]
	C,
}

#[derive(Clone, Copy, Debug, PartialEq, Eq, PartialOrd, Ord, Serialize, Deserialize)]
pub struct IntKey(pub u16);

#[derive(Clone, Debug, PartialEq, Serialize, Deserialize)]
#[serde(tag = "t")]
pub enum InternallyTagged {
	A { x: (), y: u8 },
	B { u: UnitStruct, m: std::marker::PhantomData<u8> },
	C,
	D { o: Option<bool>, s: String },
	E { f: F64, g: F32, v: Vec<F64> },
}

#[derive(Clone, Debug, PartialEq, Serialize, Deserialize)]
#[serde(tag = "t", content = "c")]
pub enum AdjacentlyTagged {
	A(()),
	B(u8, String),
	C { u: (), n: i16 },
	D,
	E(F64),
	F { x: F32, y: (F64, u8) },
}

#[derive(Clone, Debug, PartialEq, Serialize, Deserialize)]
#[serde(untagged)]
pub enum Untagged {
	U { a: (), b: i32 },
	V(String),
	W(Vec<u8>),
	X { only: UnitStruct },
	F(F64),
	G { fl: F64, opt: Option<F32> },
}

#[derive(Clone, Debug, PartialEq, Serialize, Deserialize)]
pub struct FlatInner {
	pub u: (),
	pub n: u8,
	pub x: F64,
	pub p: std::marker::PhantomData<String>,
}

#[derive(Clone, Debug, PartialEq, Serialize, Deserialize)]
pub struct Flattening {
	pub id: u32,
	#[serde(flatten)]
	pub inner: FlatInner,
	#[serde(default, skip_serializing_if = "Option::is_none")]
	pub opt: Option<i8>,
}

/// Serialized through `Serializer::collect_str`, read back from a string.
#[derive(Clone, Copy, Debug, PartialEq, Eq, PartialOrd, Ord)]
pub struct Shown(pub u32);
impl Serialize for Shown {
	fn serialize<S: serde::Serializer>(&self, s: S) -> Result<S::Ok, S::Error> {
		s.collect_str(&format_args!("#{}", self.0))
	}
}
impl<'de> Deserialize<'de> for Shown {
	fn deserialize<D: serde::Deserializer<'de>>(d: D) -> Result<Self, D::Error> {
		let s = String::deserialize(d)?;
		s.strip_prefix('#').and_then(|x| x.parse().ok()).map(Shown).ok_or_else(|| serde::de::Error::custom("not a Shown"))
	}
}

/// Serialized through `serialize_bytes`, read back through `deserialize_byte_buf`.
#[derive(Clone, Debug, PartialEq)]
pub struct Bytes(pub Vec<u8>);
impl Serialize for Bytes {
	fn serialize<S: serde::Serializer>(&self, s: S) -> Result<S::Ok, S::Error> {
		s.serialize_bytes(&self.0)
	}
}
impl<'de> Deserialize<'de> for Bytes {
	fn deserialize<D: serde::Deserializer<'de>>(d: D) -> Result<Self, D::Error> {
		struct V;
		impl<'de> serde::de::Visitor<'de> for V {
			type Value = Bytes;
			fn expecting(&self, f: &mut std::fmt::Formatter) -> std::fmt::Result {
				f.write_str("bytes")
			}
			fn visit_seq<A: serde::de::SeqAccess<'de>>(self, mut a: A) -> Result<Bytes, A::Error> {
				let mut v = Vec::new();
				while let Some(b) = a.next_element::<u8>()? {
					v.push(b)
				}
				Ok(Bytes(v))
			}
			fn visit_bytes<E: serde::de::Error>(self, b: &[u8]) -> Result<Bytes, E> {
				Ok(Bytes(b.to_vec()))
			}
			fn visit_byte_buf<E: serde::de::Error>(self, b: Vec<u8>) -> Result<Bytes, E> {
				Ok(Bytes(b))
			}
		}
		d.deserialize_byte_buf(V)
	}
}

#[derive(Clone, Debug, PartialEq, Serialize, Deserialize)]
pub enum Datum {
	Bool(bool),
	I8(i8),
	I16(i16),
	I32(i32),
	I64(i64),
	U8(u8),
	U16(u16),
	U32(u32),
	U64(u64),
	Float32(F32),
	Float64(F64),
	Char(char),
	Str(String),
	Unit(()),
	UnitStruct(UnitStruct),
	Newtype(Newtype),
	TupleStruct(TupleStruct),
	Named(Box<Named>),
	Enum(E),
	UnitEnum(UnitOnly),
	Opt(Option<Box<Datum>>),
	Seq(Vec<Datum>),
	Tup((i32, String, bool)),
	Arr([u8; 3]),
	MapStr(BTreeMap<String, Datum>),
	MapI8(BTreeMap<i8, Datum>),
	MapI16(BTreeMap<i16, u8>),
	MapI32(BTreeMap<i32, u8>),
	MapI64(BTreeMap<i64, Datum>),
	MapU8(BTreeMap<u8, u8>),
	MapU16(BTreeMap<u16, u8>),
	MapU32(BTreeMap<u32, u8>),
	MapU64(BTreeMap<u64, Datum>),
	MapChar(BTreeMap<char, u8>),
	MapEnum(BTreeMap<UnitOnly, Datum>),
	MapNewtype(BTreeMap<IntKey, i32>),
	OptOpt(Option<Option<u8>>),
	Floats(Vec<F64>),
	Floats32(Vec<F32>),
	NtSeq(NewtypeSeq),
	NtNested(NewtypeNested),
	NtTuple1(NewtypeTuple1),
	NtArr1(NewtypeArr1),
	NtOpt(NewtypeOpt),
	NtMap(NewtypeMap),
	NtEnum(NewtypeEnum),
	NtStr(NewtypeStr),
	NtUnit(NewtypeUnit),
	Tuple1Struct(Tuple1Struct),
	Tup1((Vec<u8>,)),
	EnumKeyed(BTreeMap<String, E>),
	Shown(Shown),
	ShownKeys(BTreeMap<Shown, i8>),
	Bytes(Bytes),
	ITagged(InternallyTagged),
	ATagged(AdjacentlyTagged),
	Untagged(Untagged),
	Flattening(Flattening),
	Arr0([u8; 0]),
	EmptyTuple(EmptyTupleStruct),
	Edge(EdgeShapes),
	Chain(Chain),
	Tree(Tree),
	Case(Vec<CaseEnum>),
	CaseKeys(BTreeMap<CaseEnum, u8>),
	Skip(Skipping),
	SkipEnum(Vec<SkippingEnum>),
}

macro_rules! gen_int {
	($rng:expr, $t:ty) => {{
		match $rng.below(6) {
			0 => <$t>::MIN,
			1 => <$t>::MAX,
			2 => 0 as $t,
			3 => ($rng.below(200) as i64 - 100) as $t,
			_ => $rng.next_u64() as $t,
		}
	}};
}

/// Finite doubles with few significant bits: single-precision values widened,
/// small odd multiples of powers of two (long exact decimal expansions).
fn gen_sparse_f64(rng: &mut Rng) -> f64 {
	loop {
		let x = match rng.below(4) {
			0 => f32::from_bits(rng.next_u64() as u32) as f64,
			1 => [0.1f32, 0.2, 0.3, 1.1, 3.14, 1e10, 1e-10, 16777217.0, f32::MAX, f32::MIN_POSITIVE, 1e-45][rng.below(11)] as f64 * if rng.chance(1, 2) { 1.0 } else { -1.0 },
			2 => (1 + 2 * rng.below(64)) as f64 * 2f64.powi(rng.below(160) as i32 - 80),
			_ => 2f64.powi(rng.below(2000) as i32 - 1000),
		};
		if x.is_finite() {
			return x;
		}
	}
}

fn gen_f64(rng: &mut Rng) -> f64 {
	if rng.chance(1, 8) {
		return gen_sparse_f64(rng);
	}
	if rng.chance(1, 8) {
		// few significant digits, any decimal exponent (the doubles people write by hand)
		let digits = rng.range(1, 10);
		let mut m = String::new();
		for i in 0..digits {
			m.push(char::from(b'0' + if i == 0 { 1 + rng.below(9) } else { rng.below(10) } as u8));
		}
		let e = rng.below(121) as i32 - 60;
		let x: f64 = format!("{}{}e{}", if rng.chance(1, 3) { "-" } else { "" }, m, e).parse().unwrap_or(1.0);
		return x;
	}
	match rng.below(10) {
		0 => 0.0,
		1 => -0.0,
		2 => [f64::MAX, f64::MIN, f64::MIN_POSITIVE, f64::EPSILON, 5e-324, 1e21, 1e-7, 1e22, 1e23][rng.below(9)],
		3 => [f64::NAN, f64::INFINITY, f64::NEG_INFINITY][rng.below(3)],
		4 => (rng.below(2000) as f64 - 1000.0) / 8.0,
		5 => rng.next_u64() as f64,
		_ => f64::from_bits(rng.next_u64()),
	}
}

fn gen_finite_f64(rng: &mut Rng) -> f64 {
	loop {
		let x = gen_f64(rng);
		if x.is_finite() {
			return x;
		}
	}
}

fn gen_finite_f32(rng: &mut Rng) -> f32 {
	loop {
		let x = gen_f32(rng);
		if x.is_finite() {
			return x;
		}
	}
}

fn gen_f32(rng: &mut Rng) -> f32 {
	match rng.below(10) {
		0 => 0.0,
		1 => -0.0,
		2 => [f32::MAX, f32::MIN, f32::MIN_POSITIVE, f32::EPSILON, 1e-45, 0.1, 16777216.0, 3.4028235e38][rng.below(8)],
		3 => [f32::NAN, f32::INFINITY, f32::NEG_INFINITY][rng.below(3)],
		4 => (rng.below(2000) as f32 - 1000.0) / 8.0,
		5 => f32::from_bits((rng.next_u64() as u32) & 0x807f_ffff), // subnormals
		_ => f32::from_bits(rng.next_u64() as u32),
	}
}

fn gen_str(rng: &mut Rng) -> String {
	match rng.below(8) {
		0 => ["0", "42", "-17", "007", "+5", "1e3", "1.5", "true", "null", "", "$serde_json::private::Number"][rng.below(11)].to_string(),
		_ => gen::gen_string(rng),
	}
}

fn gen_char_key(rng: &mut Rng) -> char {
	match rng.below(4) {
		0 => (b'0' + rng.below(10) as u8) as char,
		_ => gen::gen_char(rng),
	}
}

fn gen_e(rng: &mut Rng, depth: usize) -> E {
	match rng.below(if depth > 3 { 8 } else { 11 }) {
		0 => E::Unit,
		1 => E::Renamed,
		2 => E::Newtype(gen_int!(rng, i16)),
		3 => E::NewtypeOpt(if rng.chance(1, 2) { None } else { Some(gen_int!(rng, u8)) }),
		4 => E::NewtypeStr(gen_str(rng)),
		5 => E::Tuple(gen_int!(rng, i8), gen_str(rng)),
		6 => E::Tuple3(rng.chance(1, 2), (), F64(gen_f64(rng))),
		7 => E::EmptyStruct {},
		8 => E::Struct {
			x: gen_int!(rng, u32),
			y: (0..rng.below(3)).map(|_| gen_e(rng, depth + 1)).collect(),
		},
		9 => E::Nested(Box::new(gen_e(rng, depth + 1))),
		_ => E::Map((0..rng.below(3)).map(|_| (gen_str(rng), gen_e(rng, depth + 1))).collect()),
	}
}

fn gen_named(rng: &mut Rng, depth: usize) -> Named {
	Named {
		a: gen_int!(rng, i32),
		b: gen_str(rng),
		c: (0..rng.below(4)).map(|_| gen_int!(rng, u16)).collect(),
		d: if depth < 3 && rng.chance(1, 3) { Some(Box::new(gen_named(rng, depth + 1))) } else { None },
		e: (),
		f: gen::gen_char(rng),
		g: F64(gen_f64(rng)),
		h: F32(gen_f32(rng)),
		i: rng.chance(1, 2),
		j: (gen_int!(rng, i8), gen_int!(rng, u64)),
		k: [gen_int!(rng, i16), gen_int!(rng, i16)],
	}
}

pub fn gen_datum(rng: &mut Rng, depth: usize) -> Datum {
	let n = if depth >= 3 { 20 } else { 68 };
	let short = |rng: &mut Rng| -> usize { [0usize, 1, 1, 1, 2, 3][rng.below(6)] };
	let sub = |rng: &mut Rng| gen_datum(rng, depth + 1);
	let len = |rng: &mut Rng| [0, 1, 2, 3, 6][rng.below(5)];
	match rng.below(n) {
		0 => Datum::Bool(rng.chance(1, 2)),
		1 => Datum::I8(gen_int!(rng, i8)),
		2 => Datum::I16(gen_int!(rng, i16)),
		3 => Datum::I32(gen_int!(rng, i32)),
		4 => Datum::I64(gen_int!(rng, i64)),
		5 => Datum::U8(gen_int!(rng, u8)),
		6 => Datum::U16(gen_int!(rng, u16)),
		7 => Datum::U32(gen_int!(rng, u32)),
		8 => Datum::U64(gen_int!(rng, u64)),
		9 => Datum::Float32(F32(gen_f32(rng))),
		10 => Datum::Float64(F64(gen_f64(rng))),
		11 => Datum::Char(gen::gen_char(rng)),
		12 => Datum::Str(gen_str(rng)),
		13 => Datum::Unit(()),
		14 => Datum::UnitStruct(UnitStruct),
		15 => Datum::Newtype(Newtype(gen_int!(rng, i64))),
		16 => Datum::TupleStruct(TupleStruct(gen_int!(rng, u8), gen_str(rng), [None, Some(true), Some(false)][rng.below(3)])),
		17 => Datum::UnitEnum([UnitOnly::A, UnitOnly::B, UnitOnly::C][rng.below(3)]),
		18 => Datum::Tup((gen_int!(rng, i32), gen_str(rng), rng.chance(1, 2))),
		19 => Datum::Arr([gen_int!(rng, u8), gen_int!(rng, u8), gen_int!(rng, u8)]),
		20 => Datum::Named(Box::new(gen_named(rng, depth))),
		21 => Datum::Enum(gen_e(rng, depth)),
		22 => Datum::Opt(if rng.chance(1, 3) { None } else { Some(Box::new(sub(rng))) }),
		23 => {
			let l = len(rng);
			Datum::Seq((0..l).map(|_| sub(rng)).collect())
		}
		24 => {
			let l = len(rng);
			Datum::MapStr((0..l).map(|_| (gen_str(rng), sub(rng))).collect())
		}
		25 => {
			let l = len(rng);
			Datum::MapI8((0..l).map(|_| (gen_int!(rng, i8), sub(rng))).collect())
		}
		26 => Datum::MapI16((0..len(rng)).map(|_| (gen_int!(rng, i16), gen_int!(rng, u8))).collect()),
		27 => Datum::MapI32((0..len(rng)).map(|_| (gen_int!(rng, i32), gen_int!(rng, u8))).collect()),
		28 => {
			let l = len(rng);
			Datum::MapI64((0..l).map(|_| (gen_int!(rng, i64), sub(rng))).collect())
		}
		29 => Datum::MapU8((0..len(rng)).map(|_| (gen_int!(rng, u8), gen_int!(rng, u8))).collect()),
		30 => Datum::MapU16((0..len(rng)).map(|_| (gen_int!(rng, u16), gen_int!(rng, u8))).collect()),
		31 => Datum::MapU32((0..len(rng)).map(|_| (gen_int!(rng, u32), gen_int!(rng, u8))).collect()),
		32 => {
			let l = len(rng);
			Datum::MapU64((0..l).map(|_| (gen_int!(rng, u64), sub(rng))).collect())
		}
		33 => Datum::MapChar((0..len(rng)).map(|_| (gen_char_key(rng), gen_int!(rng, u8))).collect()),
		34 => {
			let l = len(rng);
			Datum::MapEnum((0..l).map(|_| ([UnitOnly::A, UnitOnly::B, UnitOnly::C][rng.below(3)], sub(rng))).collect())
		}
		35 => Datum::MapNewtype((0..len(rng)).map(|_| (IntKey(gen_int!(rng, u16)), gen_int!(rng, i32))).collect()),
		36 => Datum::OptOpt([None, Some(None), Some(Some(7))][rng.below(3)]),
		37 => Datum::Floats((0..len(rng)).map(|_| F64(gen_f64(rng))).collect()),
		38 => Datum::Floats32((0..len(rng)).map(|_| F32(gen_f32(rng))).collect()),
		39 => Datum::NtSeq(NewtypeSeq((0..short(rng)).map(|_| gen_int!(rng, u32)).collect())),
		40 => Datum::NtNested(NewtypeNested((0..short(rng)).map(|_| (0..short(rng)).map(|_| gen_int!(rng, u8)).collect()).collect())),
		41 => Datum::NtTuple1(NewtypeTuple1((gen_int!(rng, u8),))),
		42 => Datum::NtArr1(NewtypeArr1([gen_int!(rng, i8)])),
		43 => Datum::NtOpt(NewtypeOpt(if rng.chance(1, 3) { None } else { Some((0..short(rng)).map(|_| gen_int!(rng, u8)).collect()) })),
		44 => Datum::NtMap(NewtypeMap((0..short(rng)).map(|_| (gen_str(rng), gen_int!(rng, u8))).collect())),
		45 => Datum::NtEnum(NewtypeEnum([UnitOnly::A, UnitOnly::B, UnitOnly::C][rng.below(3)])),
		46 => Datum::NtStr(NewtypeStr(gen_str(rng))),
		47 => Datum::NtUnit(NewtypeUnit(())),
		48 => Datum::Tuple1Struct(Tuple1Struct((0..short(rng)).map(|_| gen_int!(rng, i8)).collect(), ())),
		49 => Datum::Tup1(((0..short(rng)).map(|_| gen_int!(rng, u8)).collect(),)),
		50 => Datum::EnumKeyed((0..short(rng)).map(|_| (gen_str(rng), gen_e(rng, depth + 1))).collect()),
		51 => Datum::Shown(Shown(gen_int!(rng, u32))),
		52 => Datum::ShownKeys((0..short(rng)).map(|_| (Shown(gen_int!(rng, u32)), gen_int!(rng, i8))).collect()),
		53 => Datum::Bytes(Bytes((0..len(rng)).map(|_| gen_int!(rng, u8)).collect())),
		54 => Datum::ITagged(match rng.below(5) {
			4 => InternallyTagged::E { f: F64(gen_finite_f64(rng)), g: F32(gen_finite_f32(rng)), v: (0..short(rng)).map(|_| F64(gen_finite_f64(rng))).collect() },
			0 => InternallyTagged::A { x: (), y: gen_int!(rng, u8) },
			1 => InternallyTagged::B { u: UnitStruct, m: std::marker::PhantomData },
			2 => InternallyTagged::C,
			_ => InternallyTagged::D { o: [None, Some(true)][rng.below(2)], s: gen_str(rng) },
		}),
		55 => Datum::ATagged(match rng.below(6) {
			4 => AdjacentlyTagged::E(F64(gen_finite_f64(rng))),
			5 => AdjacentlyTagged::F { x: F32(gen_finite_f32(rng)), y: (F64(gen_finite_f64(rng)), gen_int!(rng, u8)) },
			0 => AdjacentlyTagged::A(()),
			1 => AdjacentlyTagged::B(gen_int!(rng, u8), gen_str(rng)),
			2 => AdjacentlyTagged::C { u: (), n: gen_int!(rng, i16) },
			_ => AdjacentlyTagged::D,
		}),
		56 => Datum::Untagged(match rng.below(6) {
			4 => Untagged::F(F64(gen_finite_f64(rng))),
			5 => Untagged::G { fl: F64(gen_finite_f64(rng)), opt: [None, Some(F32(gen_finite_f32(rng)))][rng.below(2)] },
			0 => Untagged::U { a: (), b: gen_int!(rng, i32) },
			1 => Untagged::V(gen_str(rng)),
			2 => Untagged::W((0..short(rng)).map(|_| gen_int!(rng, u8)).collect()),
			_ => Untagged::X { only: UnitStruct },
		}),
		57 => Datum::Flattening(Flattening {
			id: gen_int!(rng, u32),
			inner: FlatInner { u: (), n: gen_int!(rng, u8), x: F64(gen_finite_f64(rng)), p: std::marker::PhantomData },
			opt: [None, Some(-1)][rng.below(2)],
		}),
		58 => Datum::Arr0([]),
		59 => Datum::EmptyTuple(EmptyTupleStruct()),
		61 => {
			// mostly short, sometimes longer than any recursion limit one might think of (128, 256)
			let len = if rng.chance(1, 6) { rng.range(120, 300) } else { rng.range(1, 12) };
			let mut c = Chain { id: 0, next: None };
			for i in 1..len {
				c = Chain { id: i as u32, next: Some(Box::new(c)) };
			}
			Datum::Chain(c)
		}
		62 => {
			let depth = if rng.chance(1, 6) { rng.range(60, 150) } else { rng.range(1, 8) };
			let mut t = Tree::Leaf(gen_int!(rng, i8));
			for d in 0..depth {
				t = if d % 5 == 4 { Tree::List(vec![Tree::Leaf(1), t, Tree::List(vec![])]) } else { Tree::List(vec![t]) };
			}
			Datum::Tree(t)
		}
		63 => Datum::Case((0..short(rng) + 1).map(|_| [CaseEnum::Kb, CaseEnum::KB, CaseEnum::Mb(1), CaseEnum::MB(2), CaseEnum::Lower][rng.below(5)]).collect()),
		64 => Datum::CaseKeys([CaseEnum::Kb, CaseEnum::KB, CaseEnum::Lower].iter().enumerate().filter(|_| rng.chance(2, 3)).map(|(i, k)| (*k, i as u8)).collect()),
		65 => Datum::Skip(gen_skipping(rng)),
		66 => Datum::SkipEnum(
			(0..short(rng) + 1)
				.map(|_| {
					if rng.chance(1, 2) {
						SkippingEnum::V {
							x: if rng.chance(1, 2) { Some(gen_int!(rng, i8)) } else { None },
							y: rng.chance(1, 2),
							z: if rng.chance(1, 2) { Some(Box::new(gen_skipping(rng))) } else { None },
						}
					} else {
						SkippingEnum::AllOptional {
							p: if rng.chance(1, 2) { Some(gen_int!(rng, u8)) } else { None },
							q: if rng.chance(1, 2) { String::new() } else { gen_str(rng) },
						}
					}
				})
				.collect(),
		),
		_ => Datum::Edge(EdgeShapes {
			a0: [],
			m: EmptyTupleStruct(),
			v: (0..short(rng)).map(|_| []).collect(),
			o: [None, Some([])][rng.below(2)],
			e: match rng.below(5) {
				0 => EdgeEnum::EmptyTuple(),
				1 => EdgeEnum::One(((),)),
				2 => EdgeEnum::UnitNewtype(()),
				3 => EdgeEnum::Arr0([]),
				_ => EdgeEnum::Marker(EmptyTupleStruct()),
			},
			t: ((), [], EmptyTupleStruct()),
			k: (0..short(rng)).map(|_| (gen_str(rng), EmptyTupleStruct())).collect(),
		}),
	}
}

fn gen_skipping(rng: &mut Rng) -> Skipping {
	Skipping {
		a: gen_int!(rng, u8),
		b: if rng.chance(1, 2) { Some(gen_str(rng)) } else { None },
		c: if rng.chance(1, 2) { Vec::new() } else { vec![1, 2] },
		d: if rng.chance(1, 2) { Some(F64(gen_f64(rng))) } else { None },
	}
}

fn variant_name(d: &Datum) -> String {
	let s = format!("{:?}", d);
	s.split(|c: char| !c.is_alphanumeric()).next().unwrap_or("").to_string()
}

/// Same JSON shape: kinds, key sets, strings, array lengths; numbers denote
/// the same integer, or the same f64, or the same f32 where serde_json widened.
fn same_shape(js: &Value, sj: &serde_json::Value, path: &mut String) -> Result<(), String> {
	match (js, sj) {
		(Value::Null, serde_json::Value::Null) => Ok(()),
		(Value::Boolean(a), serde_json::Value::Bool(b)) if a == b => Ok(()),
		(Value::String(a), serde_json::Value::String(b)) if a.as_str() == b.as_str() => Ok(()),
		(Value::Number(a), serde_json::Value::Number(b)) => {
			let s = a.as_str();
			let ok = if let Some(u) = b.as_u64() {
				s.parse::<u64>().ok() == Some(u)
			} else if let Some(i) = b.as_i64() {
				s.parse::<i64>().ok() == Some(i)
			} else if let Some(f) = b.as_f64() {
				let x = nearest_double(s);
				x == f || {
					let x32 = s.parse::<f32>().unwrap_or(f32::NAN);
					(f as f32) == x32 && (x32 as f64) == f
				}
			} else {
				false
			};
			if ok {
				Ok(())
			} else {
				Err(format!("at {}: json-syntax number {} vs serde_json number {}", path, s, b))
			}
		}
		(Value::Array(a), serde_json::Value::Array(b)) if a.len() == b.len() => {
			for (i, (x, y)) in a.iter().zip(b).enumerate() {
				let l = path.len();
				path.push_str(&format!("[{}]", i));
				same_shape(x, y, path)?;
				path.truncate(l);
			}
			Ok(())
		}
		(Value::Object(a), serde_json::Value::Object(b)) => {
			if a.len() != b.len() {
				return Err(format!("at {}: {} entries vs {} members", path, a.len(), b.len()));
			}
			for e in a.iter() {
				let Some(y) = b.get(e.key.as_str()) else {
					return Err(format!("at {}: key {:?} missing in serde_json's rendering", path, e.key.as_str()));
				};
				if a.get(e.key.as_str()).count() != 1 {
					return Err(format!("at {}: key {:?} duplicated", path, e.key.as_str()));
				}
				let l = path.len();
				path.push_str(&format!(".{:?}", e.key.as_str()));
				same_shape(&e.value, y, path)?;
				path.truncate(l);
			}
			Ok(())
		}
		_ => Err(format!("at {}: json-syntax {:?} vs serde_json {}", path, js.kind(), sj)),
	}
}

fn c16_one(rep: &mut Report, x: &Datum) {
	rep.evaluations += 1;
	let name = variant_name(x);
	rep.count(&format!("shape:{}", name), 1);
	let case = || json!({"sub": "datum", "debug": format!("{:?}", x).chars().take(2000).collect::<String>(), "serde_json": serde_json::to_string(x).unwrap_or_default()});
	// reference: does serde_json itself round-trip this datum?
	let sj = serde_json::to_value(x);
	let sj_ok = match &sj {
		Ok(v) => serde_json::from_value::<Datum>(v.clone()).ok().as_ref() == Some(x),
		Err(_) => false,
	};
	let sj_text = serde_json::to_string(x).ok();
	let sj_text_ok = sj_text.as_ref().map(|t| serde_json::from_str::<Datum>(t).ok().as_ref() == Some(x)).unwrap_or(false);
	// serde_json round-trips the datum through its Value or through its text
	let sj_ok = sj_ok || (sj.is_ok() && sj_text_ok);
	if sj_ok {
		rep.count("data_serde_json_round_trips", 1)
	} else {
		rep.count("data_serde_json_itself_does_not_round_trip(excluded from (1),(3))", 1)
	}

	let js = match guard(|| json_syntax::to_value(x)) {
		Ok(r) => r,
		Err(p) => {
			rep.violation(format!("C16:panic:to_value:{}", name), format!("to_value panicked on {:?}: {}", x, p), case());
			return;
		}
	};
	match (&js, &sj) {
		(Ok(v), Ok(s)) => {
			// (2) same JSON shape as serde_json
			if let Err(m) = same_shape(v, s, &mut String::from("$")) {
				rep.violation(format!("C16:shape:{}", name), format!("to_value({:?}) = {} but serde_json renders {}: {}", x, show(v.to_string().as_bytes()), s, m), case());
			}
		}
		(Err(e), Ok(s)) => rep.violation(format!("C16:to_value-fails:{}", name), format!("to_value fails ({}) where serde_json renders {}", e, s), case()),
		(Ok(v), Err(e)) => {
			if sj_ok {
				rep.violation(format!("C16:to_value-succeeds:{}", name), format!("serde_json refuses ({}) but to_value gives {}", e, v), case());
			}
		}
		(Err(_), Err(_)) => (),
	}
	// (1) round trip through Value
	if let Ok(v) = &js {
		match guard(|| json_syntax::from_value::<Datum>(v.clone())) {
			Ok(Ok(back)) => {
				if sj_ok && back != *x {
					rep.violation(format!("C16:round-trip:{}", name), format!("from_value(to_value(x)) = {:?}, x = {:?} (via {})", back, x, show(v.to_string().as_bytes())), case());
				}
			}
			Ok(Err(e)) => {
				if sj_ok {
					rep.violation(format!("C16:from_value-fails:{}", name), format!("from_value(to_value(x)) fails: {} (x = {:?}, value {})", e, x, show(v.to_string().as_bytes())), case());
				}
			}
			Err(p) => rep.violation(format!("C16:panic:from_value:{}", name), format!("from_value panicked: {} (x = {:?})", p, x), case()),
		}
	}
	// (3) serde_json's rendering converted into a Value deserializes to the datum
	if sj_ok {
		if let Ok(s) = &sj {
			match guard(|| json_syntax::from_value::<Datum>(Value::from_serde_json(s.clone()))) {
				Ok(Ok(back)) if back == *x => (),
				other => rep.violation(format!("C16:via-serde_json-value:{}", name), format!("from_value(from_serde_json(serde_json::to_value(x))) = {:?}, x = {:?}", other, x), case()),
			}
		}
	}
	// (5) a struct may also be given as the array of its fields (as in serde_json)
	if let (Datum::Named(n), Ok(Value::Object(outer))) = (x, &js) {
		if let Some(Value::Object(fields)) = outer.iter().next().map(|e| e.value.clone()) {
			let arr = Value::Array(fields.into_iter().map(|e| e.value).collect());
			let sj_arr = guard(|| arr.clone().into_serde_json());
			if let Ok(sj_arr) = sj_arr {
				if serde_json::from_value::<Named>(sj_arr).ok().as_ref() == Some(&**n) {
					rep.count("structs_read_from_field_arrays", 1);
					match guard(|| json_syntax::from_value::<Named>(arr.clone())) {
						Ok(Ok(back)) if back == **n => (),
						other => rep.violation("C16:struct-from-array", format!("from_value::<Named>({}) = {:?}, expected {:?}", show(arr.to_string().as_bytes()), other, n), case()),
					}
				}
			}
		}
	}
	// (4) serde_json's text parsed by json-syntax deserializes to the datum
	if sj_text_ok {
		if let Some(t) = &sj_text {
			match guard(|| Value::parse_str(t).map(|p| json_syntax::from_value::<Datum>(p.0))) {
				Ok(Ok(Ok(back))) if back == *x => (),
				other => rep.violation(format!("C16:via-serde_json-text:{}", name), format!("from_value(parse(serde_json::to_string(x))) = {:?}, x = {:?}, text {}", other, x, show(t.as_bytes())), case()),
			}
		}
	}
}

pub fn run_c16(cfg: &Config) -> i32 {
	let started = Instant::now();
	let mut total = Report::new();
	let seed = cfg.seed;
	let shards = 64usize;
	let n = cfg.budget(1_000_000, 20_000_000);
	let rep = parallel(cfg.threads, shards, |i| {
		let mut rep = Report::new();
		let mut rng = Rng::new(seed).fork(0xc16 + i as u64);
		for k in 0..(n / shards as u64).max(1) {
			let x = gen_datum(&mut rng, 0);
			rep.distinct_hash(fnv(format!("{:?}", x).as_bytes()));
			c16_one(&mut rep, &x);
			if i == 0 && k < 2 {
				rep.sample(json!({"family": "data", "datum": format!("{:?}", x).chars().take(400).collect::<String>()}));
			}
		}
		rep
	});
	total.merge(rep);
	// raw float bit patterns
	let n = cfg.budget(8_000_000, 400_000_000);
	let rep = parallel(cfg.threads, shards, |i| {
		let mut rep = Report::new();
		let mut rng = Rng::new(seed).fork(0xf64 + i as u64);
		let per = (n / shards as u64).max(1);
		for k in 0..per {
			rep.evaluations += 1;
			if k % 2 == 0 {
				let x = gen_f64_sweep(&mut rng, k);
				let r = guard(|| json_syntax::to_value(x).map(|v| (v.clone(), json_syntax::from_value::<f64>(v))));
				let ok = match &r {
					Ok(Ok((Value::Null, _))) => !x.is_finite(),
					Ok(Ok((Value::Number(_), Ok(y)))) => x.is_finite() && (y.to_bits() == x.to_bits() || (x == 0.0 && *y == 0.0)),
					_ => false,
				};
				if !ok {
					rep.violation("C16:f64-bits", format!("f64 {:e} (bits {:016x}) through to_value/from_value: {:?}", x, x.to_bits(), r.map(|r| r.map(|p| (p.0.to_string(), p.1)))), json!({"sub": "f64", "bits": format!("{:016x}", x.to_bits())}));
				}
				rep.count("f64_bit_patterns", 1);
			} else {
				let x = f32::from_bits(if k % 64 == 1 { (rng.next_u64() as u32) & 0x807f_ffff } else { rng.next_u64() as u32 });
				let r = guard(|| json_syntax::to_value(x).map(|v| (v.clone(), json_syntax::from_value::<f32>(v))));
				let ok = match &r {
					Ok(Ok((Value::Null, _))) => !x.is_finite(),
					Ok(Ok((Value::Number(_), Ok(y)))) => x.is_finite() && (y.to_bits() == x.to_bits() || (x == 0.0 && *y == 0.0)),
					_ => false,
				};
				if !ok {
					rep.violation("C16:f32-bits", format!("f32 {:e} (bits {:08x}) through to_value/from_value: {:?}", x, x.to_bits(), r.map(|r| r.map(|p| (p.0.to_string(), p.1)))), json!({"sub": "f32", "bits": format!("{:08x}", x.to_bits())}));
				}
				rep.count("f32_bit_patterns", 1);
			}
		}
		rep.distinct_by_construction(per);
		rep
	});
	total.merge(rep);
	conclude(
		cfg,
		EvidenceMeta {
			id: "C16",
			rule: "a case is an instance of the derive-annotated type family (67 top-level shapes: all integer widths at their bounds, f32/f64 incl. non-finite and subnormal, char, strings that look like numbers, unit, unit/newtype/tuple/named structs, an enum with unit/renamed/newtype/tuple/struct/empty-struct variants, options, tuples, arrays, sequences, newtype structs over sequences / one-element tuples and arrays / options / maps / enums / strings / unit, internally / adjacently tagged and untagged enums and flattened structs with unit-like fields, zero-length arrays, tuple structs and tuple variants without fields, linked chains up to 300 long and trees of lists up to 150 deep, enums whose variant names differ in capitalization only (as values and as map keys), structs and struct variants whose empty fields are left out of the rendering, collect_str and bytes types, maps keyed by String, i8..i64, u8..u64, char, unit-variant enum, integer newtype; recursive nesting) generated from the seed; checked: (1) from_value(to_value(x)) == x whenever serde_json's own Value round trip returns x, (2) to_value(x) has the same JSON shape as serde_json::to_value(x), (3) from_value(from_serde_json(serde_json::to_value(x))) == x, (4) from_value(parse(serde_json::to_string(x))) == x, under the same proviso; plus raw f64/f32 bit patterns through to_value/from_value; distinct by hash of the Debug rendering",
			exhaustive: false,
			assumptions: vec![
				"serde_json 1.0.x with default features is the stated reference; data serde_json itself cannot round-trip (non-finite floats, Some(None), ...) are excluded from the round-trip relations".into(),
				"floats compare by bits, the two zeros identified".into(),
			],
			extra: json!({}),
		},
		total,
		started,
		if cfg.san { 50 } else { 50_000 },
	)
	.exit
}

fn gen_f64_sweep(rng: &mut Rng, k: u64) -> f64 {
	match k % 32 {
		6 | 7 => gen_sparse_f64(rng),
		0 => f64::from_bits(rng.next_u64() & 0x800f_ffff_ffff_ffff), // subnormals
		2 => (rng.next_u64() >> rng.below(64)) as f64,              // integers
		4 => f64::from_bits(0x7fe0_0000_0000_0000 | rng.next_u64() & 0x801f_ffff_ffff_ffff), // huge
		_ => f64::from_bits(rng.next_u64()),
	}
}

// ---------------------------------------------------------------------------
// C17
// ---------------------------------------------------------------------------

fn is_int_syntax(s: &str) -> bool {
	!s.contains(['.', 'e', 'E'])
}

/// K1: integer-syntax (no decimal point) spelling that is neither an i64 nor a u64.
fn is_k1(s: &str) -> bool {
	!s.contains('.') && s.parse::<i64>().is_err() && s.parse::<u64>().is_err()
}

fn sig_digits(s: &str) -> usize {
	let m = s.split(['e', 'E']).next().unwrap_or("");
	let d: String = m.chars().filter(|c| c.is_ascii_digit()).collect();
	d.trim_start_matches('0').len()
}

fn any_number(r: &RVal, f: &dyn Fn(&str) -> bool) -> bool {
	match r {
		RVal::Num(n) => f(n),
		RVal::Arr(a) => a.iter().any(|x| any_number(x, f)),
		RVal::Obj(o) => o.iter().any(|(_, x)| any_number(x, f)),
		_ => false,
	}
}

fn has_dups(r: &RVal) -> bool {
	match r {
		RVal::Arr(a) => a.iter().any(has_dups),
		RVal::Obj(o) => {
			let mut keys: Vec<&str> = o.iter().map(|e| e.0.as_str()).collect();
			keys.sort();
			keys.windows(2).any(|w| w[0] == w[1]) || o.iter().any(|e| has_dups(&e.1))
		}
		_ => false,
	}
}

/// Expected result of serializing a Value with the crate's serializer:
/// duplicates collapse to the first position holding the last value; integers
/// are re-rendered from their i64/u64 value; everything else verbatim.
fn ser_model(r: &RVal) -> RVal {
	match r {
		RVal::Num(n) => {
			if n.contains('.') {
				RVal::Num(n.clone())
			} else if let Ok(i) = n.parse::<i64>() {
				RVal::Num(i.to_string())
			} else if let Ok(u) = n.parse::<u64>() {
				RVal::Num(u.to_string())
			} else {
				RVal::Num(n.clone())
			}
		}
		RVal::Arr(a) => RVal::Arr(a.iter().map(ser_model).collect()),
		RVal::Obj(o) => {
			let mut out: Vec<(String, RVal)> = Vec::new();
			for (k, v) in o {
				let v = ser_model(v);
				match out.iter_mut().find(|e| e.0 == *k) {
					Some(e) => e.1 = v,
					None => out.push((k.clone(), v)),
				}
			}
			RVal::Obj(out)
		}
		other => other.clone(),
	}
}

fn ulps(a: f64, b: f64) -> u64 {
	let x = a.to_bits() as i64;
	let y = b.to_bits() as i64;
	(x - y).unsigned_abs()
}

/// Compares a deserialized value with the source: same structure and strings;
/// numbers denote the same integer / double. `expected_double` gives the double
/// the source spelling must denote. Returns Err(("K2", msg)) for the known class.
fn de_compare(src: &RVal, got: &RVal, expected_double: &dyn Fn(&str) -> f64, path: &mut String) -> Result<(), (bool, String)> {
	match (src, got) {
		(RVal::Null, RVal::Null) => Ok(()),
		(RVal::Bool(a), RVal::Bool(b)) if a == b => Ok(()),
		(RVal::Str(a), RVal::Str(b)) if a == b => Ok(()),
		(RVal::Num(a), RVal::Num(b)) => {
			if let Ok(u) = a.parse::<u64>() {
				return if b.parse::<u64>().ok() == Some(u) { Ok(()) } else { Err((false, format!("at {}: integer {} became {}", path, a, b))) };
			}
			if let Ok(i) = a.parse::<i64>() {
				return if b.parse::<i64>().ok() == Some(i) { Ok(()) } else { Err((false, format!("at {}: integer {} became {}", path, a, b))) };
			}
			let want = expected_double(a);
			let have = nearest_double(b);
			if want == have {
				Ok(())
			} else {
				let k2 = sig_digits(a) > 19 && want.is_finite() && have.is_finite() && ulps(want, have) <= 2;
				Err((k2, format!("at {}: number {} denotes {:e} but the result {} denotes {:e} ({} ulp)", path, a, want, b, have, ulps(want, have))))
			}
		}
		(RVal::Arr(a), RVal::Arr(b)) if a.len() == b.len() => {
			for (i, (x, y)) in a.iter().zip(b).enumerate() {
				let l = path.len();
				path.push_str(&format!("[{}]", i));
				de_compare(x, y, expected_double, path)?;
				path.truncate(l);
			}
			Ok(())
		}
		(RVal::Obj(a), RVal::Obj(b)) if a.len() == b.len() => {
			for ((ka, x), (kb, y)) in a.iter().zip(b) {
				if ka != kb {
					return Err((false, format!("at {}: key {:?} became {:?}", path, ka, kb)));
				}
				let l = path.len();
				path.push_str(&format!(".{:?}", ka));
				de_compare(x, y, expected_double, path)?;
				path.truncate(l);
			}
			Ok(())
		}
		_ => Err((false, format!("at {}: {} became {}", path, src.kind_name(), got.kind_name()))),
	}
}

const TOKEN: &str = "$serde_json::private::Number";

/// K5: an object whose first key is serde_json's private number token.
fn has_token_first_key(r: &RVal) -> bool {
	match r {
		RVal::Arr(a) => a.iter().any(has_token_first_key),
		RVal::Obj(o) => o.first().map(|e| e.0 == TOKEN).unwrap_or(false) || o.iter().any(|e| has_token_first_key(&e.1)),
		_ => false,
	}
}

/// Renames the first key of the first non-empty object found to the token.
fn inject_token(rng: &mut Rng, r: &mut RVal) -> bool {
	match r {
		RVal::Arr(a) => {
			for x in a.iter_mut() {
				if inject_token(rng, x) {
					return true;
				}
			}
			false
		}
		RVal::Obj(o) => {
			if !o.is_empty() && !o.iter().any(|e| e.0 == TOKEN) && rng.chance(1, 2) {
				// mostly in first position (the known class K5), sometimes elsewhere (must behave as an ordinary key)
				let at = if rng.chance(2, 3) { 0 } else { rng.below(o.len()) };
				o[at].0 = TOKEN.to_string();
				if rng.chance(1, 2) {
					o[at].1 = RVal::Str(["12", "1.5e3", "x", ""][rng.below(4)].to_string());
				}
				return true;
			}
			for e in o.iter_mut() {
				if inject_token(rng, &mut e.1) {
					return true;
				}
			}
			false
		}
		_ => false,
	}
}

/// Number spellings by lexical class.
fn gen_c17_number(rng: &mut Rng) -> String {
	if rng.chance(1, 10) {
		// doubles with few significant bits, in the three usual renderings
		let x = gen_sparse_f64(rng);
		return match rng.below(3) {
			0 => format!("{:?}", x),
			1 => format!("{:e}", x),
			_ => {
				let s = format!("{}", x);
				if s.contains('.') || s.len() > 300 {
					s
				} else {
					format!("{}.0", s)
				}
			}
		};
	}
	match rng.below(12) {
		0 => ["0", "-0", "1", "-1", "9223372036854775807", "-9223372036854775808", "9223372036854775808", "18446744073709551615", "-1.2e19", "-12000000000000000000.0", "-9223372036854777856.0", "1.2e19", "18446744073709551616.0", "-9.3e18", "1e10", "-1e10", "12345678901.0", "4.64871e42"][rng.below(18)].to_string(),
		1 => ["18446744073709551616", "-9223372036854775809", "123456789012345678901234567890", "1e5", "1E0", "0e0", "-0e0", "12e+2"][rng.below(8)].to_string(),
		2 => ["-0.0", "0.0", "1.0", "1.50", "0.1e1", "100.0e-2", "-0.0e0", "1.5E+3", "1.5e400", "-6.02E1000", "1.7976931348623159e308", "1.0e309", "0.1e-400", "602214076000000.0e10"][rng.below(14)].to_string(),
		3 => (rng.next_u64() >> rng.below(64)).to_string(),
		4 => (rng.next_u64() as i64 >> rng.below(64)).to_string(),
		5..=6 => {
			// decimals with 1-19 significant digits
			loop {
				let d = super::jcsfam::gen_dec(rng);
				let s = d.spell(rng);
				if sig_digits(&s) <= 19 {
					break s;
				}
			}
		}
		7 => {
			// shortest representation of a random double
			let x = f64::from_bits(rng.next_u64());
			if x.is_finite() {
				format!("{:?}", x).replace("e", if rng.chance(1, 2) { "e" } else { "E" })
			} else {
				"2.5".into()
			}
		}
		_ => super::jcsfam::gen_ijson_number(rng),
	}
}

fn gen_c17_value(rng: &mut Rng, dups: bool) -> RVal {
	let p = gen::ValueParams {
		max_depth: 1 + rng.below(4),
		max_width: 1 + rng.below(5),
		allow_dup_keys: dups,
		number: Some(gen_c17_number),
	};
	gen::gen_value(rng, &p, 0)
}

fn c17_one(rep: &mut Report, r: &RVal) {
	rep.evaluations += 1;
	let v = from_rval(r);
	let case = || json!({"sub": "value", "doc": doc_of(r)});
	let k1 = any_number(r, &is_k1);
	let k5 = has_token_first_key(r);
	// --- Serialize ---
	match guard(|| json_syntax::to_value(&v)) {
		Err(p) => rep.violation("C17:panic:serialize", format!("to_value(&value) panicked on {}: {}", show(doc_of(r).as_bytes()), p), case()),
		Ok(Err(e)) => {
			if k1 && e.to_string() == "number too large" {
				rep.count("K1_serialize_refused", 1);
				rep.violation("K1", format!("to_value(&{}) = Err({})", show(doc_of(r).as_bytes()), e), case());
			} else {
				rep.violation("C17:serialize-fails", format!("to_value(&{}) = Err({}) although no number is outside the 64-bit integer / decimal-point classes", show(doc_of(r).as_bytes()), e), case());
			}
		}
		Ok(Ok(got)) => {
			if k1 {
				rep.count("K1_class_serialized_anyway(noted)", 1);
			}
			let want = ser_model(r);
			let got_r = to_rval(&got);
			if got_r != want {
				rep.violation(
					if has_dups(r) { "C17:serialize-duplicates" } else { "C17:serialize-differs" },
					format!("to_value(&{}) = {}, expected {}", show(doc_of(r).as_bytes()), show(doc_of(&got_r).as_bytes()), show(doc_of(&want).as_bytes())),
					case(),
				);
			} else {
				rep.count("serializations_equal_to_model", 1);
			}
		}
	}
	// --- Deserialize from another Value (duplicate-free, numbers in double range) ---
	let in_range = !any_number(r, &|s| !nearest_double(s).is_finite());
	if !has_dups(r) && in_range {
		match guard(|| json_syntax::from_value::<Value>(v.clone())) {
			Err(p) => rep.violation("C17:panic:deserialize", format!("from_value::<Value> panicked on {}: {}", show(doc_of(r).as_bytes()), p), case()),
			Ok(Err(e)) if k5 => {
				rep.count("K5_token_key_taken_for_number", 1);
				rep.violation("K5", format!("from_value::<Value>({}) = Err({})", show(doc_of(r).as_bytes()), e), case());
			}
			Ok(Err(e)) => rep.violation("C17:deserialize-fails", format!("from_value::<Value>({}) = Err({})", show(doc_of(r).as_bytes()), e), case()),
			Ok(Ok(got)) => match de_compare(r, &to_rval(&got), &|s| nearest_double(s), &mut String::from("$")) {
				Ok(()) => rep.count("deserializations_from_value_ok", 1),
				Err((_, m)) if k5 => {
					rep.count("K5_token_key_taken_for_number", 1);
					rep.violation("K5", format!("from_value::<Value>: {}", m), case());
				}
				Err((true, m)) => {
					rep.count("K2_lossy_double", 1);
					rep.violation("K2", format!("from_value::<Value>: {}", m), case());
				}
				Err((false, m)) => rep.violation("C17:deserialize-differs", format!("from_value::<Value>({}): {}", show(doc_of(r).as_bytes()), m), case()),
			},
		}
		// --- Deserialize in place: whatever the place held before, it ends up holding the document ---
		if !k5 {
			use serde::Deserialize;
			let text = doc_of(r);
			let places: [Value; 3] = [
				Value::Array(vec![Value::Null, Value::Boolean(true), Value::Array(vec![Value::Null; 5]), Value::String("old".into()), Value::Null, Value::Null]),
				v.clone(),
				Value::Object([("old".into(), Value::Array(vec![Value::Null; 3]))].into_iter().collect()),
			];
			for (pi, place) in places.into_iter().enumerate() {
				// from text (a source without size hints) and from another Value (exact hints)
				let mut p1 = place.clone();
				let mut p2 = place;
				let r1 = guard(std::panic::AssertUnwindSafe(|| {
					let mut de = serde_json::Deserializer::from_str(&text);
					Value::deserialize_in_place(&mut de, &mut p1).map_err(|e| e.to_string())
				}));
				let r2 = guard(std::panic::AssertUnwindSafe(|| Value::deserialize_in_place(v.clone(), &mut p2).map_err(|e| e.to_string())));
				let fresh1 = guard(|| serde_json::from_str::<Value>(&text).map_err(|e| e.to_string())).unwrap_or_else(|p| Err(format!("panic: {}", p)));
				let fresh2 = guard(|| json_syntax::from_value::<Value>(v.clone()).map_err(|e| e.to_string())).unwrap_or_else(|p| Err(format!("panic: {}", p)));
				rep.count("in_place_deserializations", 2);
				for (how, got, place_after, fresh) in [("serde_json text", r1, &p1, fresh1), ("another Value", r2, &p2, fresh2)] {
					match (got, fresh) {
						(Err(p), _) => rep.violation("C17:panic:deserialize_in_place", format!("deserialize_in_place from {} panicked on {}: {}", how, show(text.as_bytes()), p), case()),
						(Ok(Ok(())), Ok(f)) => {
							if *place_after != f {
								rep.violation("C17:deserialize-in-place-differs", format!("deserialize_in_place from {} into place #{} leaves {}, a fresh deserialization gives {}", how, pi, show(place_after.to_string().as_bytes()), show(f.to_string().as_bytes())), case());
							}
						}
						(Ok(Err(_)), Err(_)) => (),
						(Ok(a), b) => rep.violation("C17:deserialize-in-place-differs", format!("deserialize_in_place from {}: {:?}, a fresh deserialization: {:?}", how, a, b.map(|_| "Ok")), case()),
					}
				}
			}
		}
		// --- Deserialize from text through serde_json's deserializer ---
		let text = doc_of(r);
		match guard(|| serde_json::from_str::<Value>(&text)) {
			Err(p) => rep.violation("C17:panic:from_str", format!("serde_json::from_str::<Value> panicked on {}: {}", show(text.as_bytes()), p), case()),
			Ok(Err(e)) if k5 => {
				rep.count("K5_token_key_taken_for_number", 1);
				rep.violation("K5", format!("serde_json::from_str::<json_syntax::Value>({}) = Err({})", show(text.as_bytes()), e), case());
			}
			Ok(Err(e)) => {
				// serde_json itself may refuse (numbers out of range, recursion limit): relative oracle
				if serde_json::from_str::<serde_json::Value>(&text).is_ok() {
					rep.violation("C17:from_str-fails", format!("serde_json::from_str::<json_syntax::Value>({}) = Err({}) although serde_json parses the text", show(text.as_bytes()), e), case());
				}
			}
			Ok(Ok(got)) => {
				let exp = |s: &str| serde_json::from_str::<f64>(s).unwrap_or(f64::NAN);
				match de_compare(r, &to_rval(&got), &exp, &mut String::from("$")) {
					Ok(()) => rep.count("deserializations_from_text_ok", 1),
					Err((_, m)) if k5 => {
						rep.count("K5_token_key_taken_for_number", 1);
						rep.violation("K5", format!("serde_json::from_str::<json_syntax::Value>: {}", m), case());
					}
					Err((_, m)) => rep.violation("C17:from_str-differs", format!("serde_json::from_str::<json_syntax::Value>({}): {}", show(text.as_bytes()), m), case()),
				}
			}
		}
	} else if has_dups(r) && in_range {
		// observation only: duplicates collapse on deserialization too
		if let Ok(Ok(got)) = guard(|| json_syntax::from_value::<Value>(v.clone())) {
			if !has_dups(&to_rval(&got)) {
				rep.count("deserialize_collapses_duplicates(noted)", 1);
			}
		}
	}
}

pub fn run_c17(cfg: &Config) -> i32 {
	let started = Instant::now();
	let mut total = Report::new();
	let seed = cfg.seed;
	let shards = 64usize;
	let n = cfg.budget(1_500_000, 30_000_000);
	let rep = parallel(cfg.threads, shards, |i| {
		let mut rep = Report::new();
		let mut rng = Rng::new(seed).fork(0xc17 + i as u64);
		for k in 0..(n / shards as u64).max(1) {
			let mut r = match k % 4 {
				0 => RVal::Num(gen_c17_number(&mut rng)),
				1 => gen_c17_value(&mut rng, true),
				_ => gen_c17_value(&mut rng, false),
			};
			if k % 64 == 2 {
				inject_token(&mut rng, &mut r);
			}
			if k % 32 == 9 {
				r = gen::gen_records(&mut rng);
			}
			if k % 128 == 7 {
				let d = rng.range(100, 120);
				rep.max("deepest_serialized_nesting", d as u64);
				r = gen_deep_rval(&mut rng, d);
			}
			rep.distinct_hash(fnv(doc_of(&r).as_bytes()));
			if let RVal::Num(s) = &r {
				let class = if is_k1(s) {
					"number_class:integer_syntax_beyond_64_bits_or_exponent_without_fraction"
				} else if is_int_syntax(s) {
					"number_class:64_bit_integer"
				} else if sig_digits(s) > 19 {
					"number_class:more_than_19_digits"
				} else {
					"number_class:decimal_up_to_19_digits"
				};
				rep.count(class, 1);
			}
			c17_one(&mut rep, &r);
			if i == 0 && k < 3 {
				rep.sample(json!({"family": "values", "doc": show(doc_of(&r).as_bytes())}));
			}
		}
		rep
	});
	total.merge(rep);
	// values nested deeper than any text parser's recursion limit (129..400 levels), Value to Value only
	// (serde_json's text reader stops at 128 levels, the crate's own deserializer promises no such limit);
	// arrays of 31..66 small integers around the byte range (what a serializer may take for a byte string)
	{
		let mut rep = Report::new();
		let depths: &[usize] = if cfg.san { &[129, 200] } else { &[127, 128, 129, 130, 200, 300, 400] };
		for &d in depths {
			for shape in 0..3usize {
				let mut r = RVal::Arr(vec![RVal::Num("1".into()), RVal::Str("s".into())]);
				for l in 0..d {
					r = match (shape, l % 2) {
						(0, _) | (2, 0) => RVal::Arr(vec![r]),
						_ => RVal::Obj(vec![("k".into(), r)]),
					};
				}
				rep.evaluations += 1;
				rep.distinct_by_construction(1);
				rep.max("deepest_value_to_value_nesting", d as u64);
				let v = from_rval(&r);
				let v2 = v.clone();
				let h = std::thread::Builder::new().stack_size(256 << 20).spawn(move || {
					let ser = guard(|| json_syntax::to_value(&v2).map(|x| x == v2).map_err(|e| e.to_string()));
					let de = guard(|| json_syntax::from_value::<Value>(v2.clone()).map(|x| x == v2).map_err(|e| e.to_string()));
					crate::monitor::conv::drop_value_iter(v2);
					(ser, de)
				});
				match h.ok().and_then(|h| h.join().ok()) {
					Some((Ok(Ok(true)), Ok(Ok(true)))) => rep.count("deep_values_through_both_value_paths", 1),
					Some((ser, de)) => rep.violation(
						"C17:deep-value",
						format!("a value nested {} levels (shape {}): to_value gives {:?} (Ok(true) = equal), from_value::<Value> gives {:?}", d, shape, ser, de),
						json!({"sub": "deep-value", "depth": d, "shape": shape}),
					),
					None => rep.inconclusive.push(format!("deep value thread for depth {} did not finish", d)),
				}
				crate::monitor::conv::drop_value_iter(v);
				crate::oracle::rfc8259::drop_iter(r);
			}
		}
		for n in [31usize, 32, 33, 40, 64, 66] {
			for special in ["256", "255", "257", "-1", "0", "1.0", "1e2", "256.0", "65536", "4294967296"] {
				for pos in [0usize, n / 2, n - 1] {
					let items: Vec<RVal> = (0..n).map(|j| RVal::Num(if j == pos { special.to_string() } else { ((j * 37) % 256).to_string() })).collect();
					rep.distinct_by_construction(1);
					c17_one(&mut rep, &RVal::Arr(items.clone()));
					if pos == 0 {
						c17_one(&mut rep, &RVal::Obj(vec![("blob".into(), RVal::Arr(items)), ("n".into(), RVal::Num(n.to_string()))]));
					}
				}
			}
		}
		total.merge(rep);
	}
	// objects with n distinct keys in which one of them (each position in turn) occurs again at the end
	{
		let sizes: Vec<usize> = if cfg.san { vec![3, 33] } else { vec![1, 2, 15, 16, 17, 31, 32, 33, 34, 63, 64, 65, 66] };
		let rep = parallel(cfg.threads, sizes.len(), |j| {
			let mut rep = Report::new();
			let n = sizes[j];
			for p in 0..n {
				let mut e: Vec<(String, RVal)> = (0..n).map(|x| (format!("k{}", x), RVal::Num(x.to_string()))).collect();
				e.push((format!("k{}", p), RVal::Str("again".into())));
				if p % 2 == 0 {
					e.push(("tail".into(), RVal::Null));
				}
				rep.distinct_by_construction(1);
				c17_one(&mut rep, &RVal::Obj(e));
			}
			rep
		});
		total.merge(rep);
	}
	// containers beyond any block / pre-allocation size of the (de)serialization paths
	if !cfg.san {
		let sizes = [11_915usize, 11_916, 20_000, 65_536, 65_537, 140_000];
		let rep = parallel(cfg.threads, sizes.len() * 2, |j| {
			let mut rep = Report::new();
			let n = sizes[j / 2];
			// (the model's duplicate collapse is quadratic: objects stay below 2*10^4 members)
			let r = if j % 2 == 0 || n > 20_000 {
				RVal::Arr((0..n).map(|x| if x % 3 == 0 { RVal::Num(format!("{}.5", x)) } else { RVal::Num(x.to_string()) }).collect())
			} else {
				RVal::Obj(vec![("wide".to_string(), RVal::Obj((0..n).map(|x| (format!("k{}", x), RVal::Bool(x % 2 == 0))).collect())), ("tail".to_string(), RVal::Arr((0..n / 2).map(|_| RVal::Null).collect()))])
			};
			rep.max("widest_serialized_container", n as u64);
			rep.distinct_by_construction(1);
			c17_one(&mut rep, &r);
			rep
		});
		total.merge(rep);
	}
	conclude(
		cfg,
		EvidenceMeta {
			id: "C17",
			rule: "a case is a json-syntax Value (single numbers of every lexical class: 64-bit integers at their bounds, integers beyond 64 bits, exponent without fraction, fractions, 1-400 significant digits, negative zero forms; and nested values with and without duplicate keys); checked: to_value(&v) equals the model (verbatim, integers re-rendered, duplicates collapsed to first position / last value); from_value::<Value>(v) and serde_json::from_str::<Value>(text) keep structure, strings and key order and every number denotes the same i64/u64 or the same double (correctly rounded for from_value; the double serde_json hands over for the text path); distinct by hash",
			exhaustive: false,
			assumptions: vec![
				"known finding K1 (class predicate): a spelling without '.' that is neither i64 nor u64 cannot be serialized (json-number)".into(),
				"known finding K2 (class predicate): more than 19 significant digits may deserialize up to 2 ulp off (json-number as_f64_lossy)".into(),
				"known finding K5 (class predicate): an object whose first key is \"$serde_json::private::Number\" is taken for a high-precision number by Value's Deserialize visitor".into(),
			],
			extra: json!({}),
		},
		total,
		started,
		if cfg.san { 50 } else { 50_000 },
	)
	.exit
}

// ---------------------------------------------------------------------------
// C18
// ---------------------------------------------------------------------------

fn gen_sj_number(rng: &mut Rng) -> serde_json::Number {
	match rng.below(10) {
		0 => [0u64, 1, u64::MAX, i64::MAX as u64, i64::MAX as u64 + 1, 1 << 53][rng.below(6)].into(),
		1 => [i64::MIN, -1, i64::MIN + 1, -(1 << 53)][rng.below(4)].into(),
		2 => (rng.next_u64() >> rng.below(64)).into(),
		3 => ((rng.next_u64() as i64) >> rng.below(64)).into(),
		4 => serde_json::Number::from_f64([0.0, -0.0, 5e-324, -5e-324, f64::MAX, f64::MIN, f64::MIN_POSITIVE, -f64::MIN_POSITIVE, 1e21, 1e-7, 1e23, 0.1, -1.5e300, -1.3475090132806154e-197, -0.000012345678901234568][rng.below(15)]).unwrap(),
		5 => serde_json::Number::from_f64(f64::from_bits(rng.next_u64() & 0x800f_ffff_ffff_ffff)).unwrap(),
		6 => serde_json::Number::from_f64((rng.below(100000) as f64 - 50000.0) / 16.0).unwrap(),
		7 => serde_json::Number::from_f64(gen_sparse_f64(rng)).unwrap(),
		_ => loop {
			let x = f64::from_bits(rng.next_u64());
			if let Some(n) = serde_json::Number::from_f64(x) {
				break n;
			}
		},
	}
}

/// A serde_json value nested `depth` levels deep whose containers hold several
/// children at every level (so that order and key/value pairing are observable).
fn gen_deep_sj(rng: &mut Rng, depth: usize) -> serde_json::Value {
	use serde_json::Value as S;
	let mut v = S::Array(vec![S::from(1), S::from(2), S::from(3)]);
	for d in 0..depth {
		v = match (d + rng.below(2)) % 3 {
			0 => S::Array(vec![S::from(d as u64), v, S::String(format!("s{}", d))]),
			1 => {
				let mut m = serde_json::Map::new();
				m.insert("a".into(), S::from(d as u64));
				m.insert("b".into(), v);
				m.insert("c".into(), S::Bool(d % 2 == 0));
				S::Object(m)
			}
			_ => S::Array(vec![v]),
		};
	}
	v
}

fn gen_deep_rval(rng: &mut Rng, depth: usize) -> RVal {
	let mut v = RVal::Obj(vec![("x".into(), RVal::Num("1".into())), ("y".into(), RVal::Num("2".into())), ("z".into(), RVal::Arr(vec![RVal::Num("10".into()), RVal::Num("20".into()), RVal::Num("30".into())]))]);
	for d in 0..depth {
		v = match (d + rng.below(2)) % 3 {
			0 => RVal::Arr(vec![RVal::Num(d.to_string()), v, RVal::Str(format!("s{}", d))]),
			1 => RVal::Obj(vec![("a".into(), RVal::Num(d.to_string())), ("b".into(), v), ("c".into(), RVal::Bool(d % 2 == 0))]),
			_ => RVal::Arr(vec![v]),
		};
	}
	v
}

fn gen_sj_value(rng: &mut Rng, depth: usize) -> serde_json::Value {
	use serde_json::Value as S;
	let leafy = depth >= 4 || (depth > 0 && rng.chance(2, 5));
	if leafy {
		return match rng.below(8) {
			0 => S::Null,
			1 => S::Bool(rng.chance(1, 2)),
			2..=5 => S::Number(gen_sj_number(rng)),
			_ => S::String(gen::gen_string(rng)),
		};
	}
	let n = [0, 1, 2, 3, 5, 9][rng.below(6)];
	if rng.chance(1, 2) {
		S::Array((0..n).map(|_| gen_sj_value(rng, depth + 1)).collect())
	} else {
		S::Object((0..n).map(|_| (gen::gen_key(rng), gen_sj_value(rng, depth + 1))).collect())
	}
}

/// Is every difference between `a` and `b` a float that serde_json's own
/// text round trip (to_string then from_str) changes in the same way (K4)?
fn sj_diff(a: &serde_json::Value, b: &serde_json::Value, path: &mut String) -> Result<u64, String> {
	use serde_json::Value as S;
	match (a, b) {
		(S::Number(x), S::Number(y)) => {
			if x == y {
				return Ok(0);
			}
			if x.is_f64() && y.is_f64() {
				// what serde_json itself makes of this number's text
				let own: Option<f64> = serde_json::from_str::<f64>(&x.to_string()).ok();
				if own.map(|o| o.to_bits()) == y.as_f64().map(|f| f.to_bits()) {
					return Ok(1);
				}
			}
			Err(format!("at {}: {} came back as {}", path, x, y))
		}
		(S::Array(x), S::Array(y)) if x.len() == y.len() => {
			let mut k = 0;
			for (i, (p, q)) in x.iter().zip(y).enumerate() {
				let l = path.len();
				path.push_str(&format!("[{}]", i));
				k += sj_diff(p, q, path)?;
				path.truncate(l);
			}
			Ok(k)
		}
		(S::Object(x), S::Object(y)) if x.len() == y.len() => {
			let mut k = 0;
			for (key, p) in x {
				let Some(q) = y.get(key) else { return Err(format!("at {}: key {:?} lost", path, key)) };
				let l = path.len();
				path.push_str(&format!(".{:?}", key));
				k += sj_diff(p, q, path)?;
				path.truncate(l);
			}
			Ok(k)
		}
		_ if a == b => Ok(0),
		_ => Err(format!("at {}: {} came back as {}", path, a, b)),
	}
}

fn overflow_class(s: &str) -> bool {
	s.parse::<i64>().is_err() && s.parse::<u64>().is_err() && !nearest_double(s).is_finite()
}

/// json-syntax value -> serde_json -> json-syntax: equal up to entry order and number spelling.
fn js_equiv(a: &RVal, b: &RVal, path: &mut String) -> Result<u64, String> {
	match (a, b) {
		(RVal::Num(x), RVal::Num(y)) => {
			if let (Ok(p), Ok(q)) = (x.parse::<u64>(), y.parse::<u64>()) {
				return if p == q { Ok(0) } else { Err(format!("at {}: {} became {}", path, x, y)) };
			}
			if let (Ok(p), Ok(q)) = (x.parse::<i64>(), y.parse::<i64>()) {
				return if p == q { Ok(0) } else { Err(format!("at {}: {} became {}", path, x, y)) };
			}
			let (p, q) = (nearest_double(x), nearest_double(y));
			if p == q {
				return Ok(0);
			}
			// K4: the spelling goes through serde_json's default float parser
			let own = serde_json::from_str::<f64>(x).ok();
			if own == Some(q) {
				return Ok(1);
			}
			Err(format!("at {}: {} ({:e}) became {} ({:e})", path, x, p, y, q))
		}
		(RVal::Arr(x), RVal::Arr(y)) if x.len() == y.len() => {
			let mut k = 0;
			for (i, (p, q)) in x.iter().zip(y).enumerate() {
				let l = path.len();
				path.push_str(&format!("[{}]", i));
				k += js_equiv(p, q, path)?;
				path.truncate(l);
			}
			Ok(k)
		}
		(RVal::Obj(x), RVal::Obj(y)) if x.len() == y.len() => {
			let mut k = 0;
			let index: std::collections::HashMap<&str, usize> = if y.len() > 32 { y.iter().enumerate().map(|(i, e)| (e.0.as_str(), i)).collect() } else { Default::default() };
			for (key, p) in x {
				let found = if y.len() > 32 { index.get(key.as_str()).map(|&i| &y[i]) } else { y.iter().find(|e| e.0 == *key) };
				let Some((_, q)) = found else { return Err(format!("at {}: key {:?} lost", path, key)) };
				let l = path.len();
				path.push_str(&format!(".{:?}", key));
				k += js_equiv(p, q, path)?;
				path.truncate(l);
			}
			Ok(k)
		}
		_ if a == b => Ok(0),
		_ => Err(format!("at {}: {} became {}", path, a.kind_name(), b.kind_name())),
	}
}

fn c18_from_sj(rep: &mut Report, s: &serde_json::Value) {
	rep.evaluations += 1;
	let case = || json!({"sub": "serde_json-value", "doc": s.to_string()});
	let r = guard(|| {
		let v = Value::from_serde_json(s.clone());
		let back = v.clone().into_serde_json();
		let v2: Value = s.clone().into();
		let back2: serde_json::Value = v2.into();
		(v, back, back2)
	});
	match r {
		Err(p) => rep.violation("C18:panic:from-serde_json", format!("conversion of serde_json value {} panicked: {}", show(s.to_string().as_bytes()), p), case()),
		Ok((_, back, back2)) => {
			if back != back2 {
				rep.violation("C18:from-impl-differs", "From impls and from_serde_json/into_serde_json disagree".to_string(), case());
			}
			match sj_diff(s, &back, &mut String::from("$")) {
				Ok(0) => rep.count("serde_json_values_round_tripped_exactly", 1),
				Ok(n) => {
					rep.count("K4_floats_changed_like_serde_json_own_text_round_trip", n);
					rep.violation("K4", format!("into_serde_json(from_serde_json(s)) != s for {} float(s), each equal to serde_json's own from_str(to_string(x)); first document: {}", n, show(s.to_string().as_bytes())), case());
				}
				Err(m) => rep.violation("C18:serde_json-round-trip", format!("into_serde_json(from_serde_json({})): {}", show(s.to_string().as_bytes()), m), case()),
			}
		}
	}
}

fn c18_from_js(rep: &mut Report, r: &RVal) {
	rep.evaluations += 1;
	let case = || json!({"sub": "json-syntax-value", "doc": doc_of(r)});
	let v = from_rval(r);
	let overflow = any_number(r, &overflow_class);
	let in_domain = !has_dups(r) && !any_number(r, &|s| s.parse::<i64>().is_err() && s.parse::<u64>().is_err() && !nearest_double(s).is_finite());
	match guard(|| v.clone().into_serde_json()) {
		Err(p) => {
			if overflow && p.contains("json-number") && p.contains("serde_json.rs") {
				rep.count("K3_panics_on_out_of_range_magnitude", 1);
				rep.violation("K3", format!("into_serde_json panics on {}: {}", show(doc_of(r).as_bytes()), p), case());
			} else {
				rep.violation("C18:panic:into-serde_json", format!("into_serde_json panicked on {}: {}", show(doc_of(r).as_bytes()), p), case());
			}
		}
		Ok(s) => {
			match guard(|| Value::from_serde_json(s.clone())) {
				Err(p) => rep.violation("C18:panic:from-serde_json", format!("from_serde_json panicked on {}: {}", s, p), case()),
				Ok(back) => {
					if in_domain {
						match js_equiv(r, &to_rval(&back), &mut String::from("$")) {
							Ok(0) => rep.count("json_syntax_values_round_tripped", 1),
							Ok(n) => {
								rep.count("K4_floats_changed_like_serde_json_own_text_round_trip", n);
								rep.violation("K4", format!("from_serde_json(into_serde_json(v)) changes {} float(s) exactly as serde_json's own float parser does; document {}", n, show(doc_of(r).as_bytes())), case());
							}
							Err(m) => rep.violation("C18:json-syntax-round-trip", format!("from_serde_json(into_serde_json({})): {}", show(doc_of(r).as_bytes()), m), case()),
						}
					} else {
						rep.count("out_of_domain_values_converted_without_panic", 1);
					}
				}
			}
		}
	}
}

pub fn run_c18(cfg: &Config) -> i32 {
	let started = Instant::now();
	let mut total = Report::new();
	let seed = cfg.seed;
	let shards = 64usize;
	let n = cfg.budget(1_500_000, 30_000_000);
	let rep = parallel(cfg.threads, shards, |i| {
		let mut rep = Report::new();
		let mut rng = Rng::new(seed).fork(0xc18 + i as u64);
		for k in 0..(n / shards as u64).max(1) {
			if k % 2 == 0 {
				let s = if k % 8 == 0 {
					serde_json::Value::Number(gen_sj_number(&mut rng))
				} else if k % 32 == 6 {
					// arrays of records, as serde_json holds them (members sorted by key)
					let r = gen::gen_records(&mut rng);
					serde_json::from_str(&doc_of(&r)).unwrap_or(serde_json::Value::Null)
				} else if k % 64 == 2 {
					let d = rng.range(100, 300);
					rep.max("deepest_converted_nesting", d as u64);
					gen_deep_sj(&mut rng, d)
				} else if k == 10 && i < 4 {
					// containers beyond any 64 Ki block of a bulk conversion path
					let n = [131_073usize, 200_001, 65_537, 70_000][i];
					rep.max("widest_converted_container", n as u64);
					if i % 2 == 0 {
						serde_json::Value::Array((0..n).map(|j| serde_json::Value::from(j as u64)).collect())
					} else {
						serde_json::Value::Object((0..n).map(|j| (format!("k{}", j), serde_json::Value::from(j as u64))).collect())
					}
				} else if k == 12 && i < 8 {
					// a large container inside a large container (both kinds, inner one early / in the middle / last)
					let (outer, inner) = [(9_000usize, 5_000usize), (1_100, 1_030), (4_097, 4_097), (70_000, 66_000), (1_024, 1_024), (5_000, 9_000), (2_000, 1_500), (300, 70_000)][i];
					rep.max("widest_converted_container", outer.max(inner) as u64);
					let at = [10usize, outer / 2, outer - 1][i % 3];
					let inner_arr = serde_json::Value::Array((0..inner).map(|j| serde_json::Value::from(j as u64)).collect());
					let inner_obj = serde_json::Value::Object((0..inner).map(|j| (format!("i{}", j), serde_json::Value::from(j as u64))).collect());
					if i % 2 == 0 {
						serde_json::Value::Array((0..outer).map(|j| if j == at { inner_arr.clone() } else if j == at + 1 { inner_obj.clone() } else { serde_json::Value::from(j as u64) }).collect())
					} else {
						serde_json::Value::Object((0..outer).map(|j| (format!("k{}", j), if j == at { inner_obj.clone() } else if j == at + 1 { inner_arr.clone() } else { serde_json::Value::from(j as u64) })).collect())
					}
				} else {
					gen_sj_value(&mut rng, 0)
				};
				rep.distinct_hash(fnv(s.to_string().as_bytes()));
				c18_from_sj(&mut rep, &s);
				if i == 0 && k < 4 {
					rep.sample(json!({"family": "serde_json-values", "doc": show(s.to_string().as_bytes())}));
				}
			} else {
				let r = if k % 8 == 1 {
					RVal::Num(match rng.below(6) {
						0 => ["1e999", "-1e999", "1e-999", "1E400", "-123456789e400", "0.1e-400"][rng.below(6)].to_string(),
						1 => {
							let mut s = String::from("1");
							for _ in 0..rng.range(300, 420) {
								s.push('0')
							}
							s
						}
						_ => gen_c17_number(&mut rng),
					})
				} else if k % 32 == 7 {
					gen::gen_records(&mut rng)
				} else if k % 64 == 5 {
					let d = rng.range(100, 300);
					rep.max("deepest_converted_nesting", d as u64);
					gen_deep_rval(&mut rng, d)
				} else if k == 11 && i < 4 {
					let n = [131_073usize, 200_001, 65_537, 70_000][i];
					rep.max("widest_converted_container", n as u64);
					if i % 2 == 0 {
						RVal::Arr((0..n).map(|j| RVal::Num(j.to_string())).collect())
					} else {
						RVal::Obj((0..n).map(|j| (format!("k{}", j), RVal::Num(j.to_string()))).collect())
					}
				} else if k == 13 && i < 8 {
					let (outer, inner) = [(9_000usize, 5_000usize), (1_100, 1_030), (4_097, 4_097), (70_000, 66_000), (1_024, 1_024), (5_000, 9_000), (2_000, 1_500), (300, 70_000)][i];
					rep.max("widest_converted_container", outer.max(inner) as u64);
					let at = [10usize, outer / 2, outer - 1][i % 3];
					let inner_arr = RVal::Arr((0..inner).map(|j| RVal::Num(j.to_string())).collect());
					let inner_obj = RVal::Obj((0..inner).map(|j| (format!("i{}", j), RVal::Num(j.to_string()))).collect());
					if i % 2 == 0 {
						RVal::Arr((0..outer).map(|j| if j == at { inner_arr.clone() } else if j == at + 1 { inner_obj.clone() } else { RVal::Num(j.to_string()) }).collect())
					} else {
						RVal::Obj((0..outer).map(|j| (format!("k{}", j), if j == at { inner_obj.clone() } else if j == at + 1 { inner_arr.clone() } else { RVal::Num(j.to_string()) })).collect())
					}
				} else {
					gen_c17_value(&mut rng, k % 16 == 3)
				};
				rep.distinct_hash(fnv(doc_of(&r).as_bytes()) ^ 1);
				c18_from_js(&mut rep, &r);
				if i == 0 && k < 4 {
					rep.sample(json!({"family": "json-syntax-values", "doc": show(doc_of(&r).as_bytes())}));
				}
			}
		}
		rep
	});
	total.merge(rep);

	// containers of 1..70 and 127..130 scalars with one nested member (an empty array, an empty object, a
	// one-item array) at every position in turn
	{
		let sizes: Vec<usize> = if cfg.san { vec![33, 65] } else { (1..=70).chain(127..=130).collect() };
		let rep = parallel(cfg.threads, sizes.len(), |si| {
			let mut rep = Report::new();
			let n = sizes[si];
			for p in 0..n {
				let nested = [RVal::Arr(vec![]), RVal::Obj(vec![]), RVal::Arr(vec![RVal::Num("1".into())])][(p + n) % 3].clone();
				let items: Vec<RVal> = (0..n).map(|j| if j == p { nested.clone() } else { RVal::Num(j.to_string()) }).collect();
				for r in [RVal::Arr(items.clone()), RVal::Obj(items.iter().enumerate().map(|(j, x)| (format!("k{:03}", j), x.clone())).collect())] {
					rep.distinct_by_construction(1);
					c18_from_js(&mut rep, &r);
					if let Ok(sj) = serde_json::from_str::<serde_json::Value>(&doc_of(&r)) {
						c18_from_sj(&mut rep, &sj);
					}
					rep.count("family:one-nested-member-at-every-position", 1);
				}
			}
			rep
		});
		total.merge(rep);
	}

	// arrays (and objects) whose neighbouring members are number literals related to each other: a long
	// literal next to each of its prefixes that is itself a number, in both orders, and repeated
	{
		let rep = parallel(cfg.threads, if cfg.san { 2 } else { 16 }, |i| {
			let mut rep = Report::new();
			let mut rng = Rng::new(seed).fork(0xc18a + i as u64);
			let mut rd = Reader::new();
			for round in 0..(if cfg.san { 2 } else { 12 }) {
				let long: String = match (i + round) % 6 {
					0 => {
						let mut s = String::new();
						for j in 0..rng.range(17, 30) {
							s.push(char::from(b'0' + if j == 0 { 1 + rng.below(9) } else { rng.below(10) } as u8));
						}
						s
					}
					1 => format!("0.{}", (0..rng.range(15, 30)).map(|_| char::from(b'0' + rng.below(10) as u8)).collect::<String>()),
					2 => format!("-{}.{}", 1 + rng.below(9), (0..rng.range(15, 24)).map(|_| char::from(b'0' + rng.below(10) as u8)).collect::<String>()),
					3 => format!("{}e{}", (0..rng.range(14, 20)).map(|j| char::from(b'0' + if j == 0 { 1 } else { rng.below(10) } as u8)).collect::<String>(), rng.range(10, 99)),
					4 => format!("1{}", "0".repeat(rng.range(16, 24))),
					_ => format!("{}.{}E-{}", 1 + rng.below(9), (0..rng.range(8, 14)).map(|_| char::from(b'0' + rng.below(10) as u8)).collect::<String>(), rng.range(100, 300)),
				};
				let prefixes: Vec<String> = (1..long.len()).map(|l| long[..l].to_string()).filter(|p| matches!(rd.read(p.as_bytes(), true).root, Some(RVal::Num(_)))).collect();
				let num = |s: &str| RVal::Num(s.to_string());
				let mut docs: Vec<RVal> = Vec::new();
				for p in &prefixes {
					docs.push(RVal::Arr(vec![num(&long), num(p)]));
					docs.push(RVal::Arr(vec![num(p), num(&long), num(p)]));
					docs.push(RVal::Obj(vec![("a".into(), num(&long)), ("b".into(), num(p))]));
				}
				docs.push(RVal::Arr(std::iter::once(num(&long)).chain(prefixes.iter().rev().map(|p| num(p))).collect()));
				docs.push(RVal::Arr(prefixes.iter().map(|p| num(p)).chain(std::iter::once(num(&long))).chain([num(&long), num(&prefixes[prefixes.len() / 2]), num(&long)]).collect()));
				for r in docs {
					rep.distinct_hash(fnv(doc_of(&r).as_bytes()) ^ 2);
					c18_from_js(&mut rep, &r);
					if let Ok(sj) = serde_json::from_str::<serde_json::Value>(&doc_of(&r)) {
						c18_from_sj(&mut rep, &sj);
					}
					rep.count("family:arrays-of-related-number-literals", 1);
				}
			}
			rep
		});
		total.merge(rep);
	}

	conclude(
		cfg,
		EvidenceMeta {
			id: "C18",
			rule: "cases: serde_json values (all three number representations incl. u64::MAX, i64::MIN, -0.0, subnormals, extremes, 24-byte renderings, random bit patterns; arbitrary strings and keys; nesting) through from_serde_json then into_serde_json (and the From impls) must come back equal; json-syntax values (every number class, with and without duplicates, 400-digit integers, 1e999, 1e-999) through into_serde_json then from_serde_json must be equal up to entry order and number spelling when in the stated domain; containers of 65,537-200,001 members and large containers nested in large containers (arrays and objects of 300-70,000 members, inner one early / in the middle / last); both directions under catch_unwind on all values; distinct by hash",
			exhaustive: false,
			assumptions: vec![
				"known finding K3: into_serde_json panics (json-number serde_json.rs, from_f64(inf).unwrap()) for numbers whose magnitude overflows f64".into(),
				"known finding K4 (class predicate): a float that does not survive is accepted as known only if the result equals what serde_json's own from_str(to_string(x)) yields (default float parser, feature float_roundtrip off)".into(),
			],
			extra: json!({}),
		},
		total,
		started,
		if cfg.san { 50 } else { 50_000 },
	)
	.exit
}

pub fn replay_case(id: &str, case: &serde_json::Value) -> Option<Vec<String>> {
	let mut rep = Report::new();
	match case.get("sub")?.as_str()? {
		"datum" => {
			let x: Datum = serde_json::from_str(case.get("serde_json")?.as_str()?).ok()?;
			c16_one(&mut rep, &x);
		}
		"f64" => {
			let x = f64::from_bits(u64::from_str_radix(case.get("bits")?.as_str()?, 16).ok()?);
			let ok = matches!(json_syntax::to_value(x).map(json_syntax::from_value::<f64>), Ok(Ok(y)) if y.to_bits() == x.to_bits() || (x == 0.0 && y == 0.0));
			if !ok && x.is_finite() {
				rep.violation("C16:f64-bits", "f64 does not round-trip".to_string(), case.clone());
			}
		}
		"f32" => {
			let x = f32::from_bits(u32::from_str_radix(case.get("bits")?.as_str()?, 16).ok()?);
			let ok = matches!(json_syntax::to_value(x).map(json_syntax::from_value::<f32>), Ok(Ok(y)) if y.to_bits() == x.to_bits() || (x == 0.0 && y == 0.0));
			if !ok && x.is_finite() {
				rep.violation("C16:f32-bits", "f32 does not round-trip".to_string(), case.clone());
			}
		}
		"value" => {
			let mut rd = Reader::new();
			let r = rd.read(case.get("doc")?.as_str()?.as_bytes(), true).root?;
			c17_one(&mut rep, &r);
		}
		"serde_json-value" => {
			let s: serde_json::Value = serde_json::from_str(case.get("doc")?.as_str()?).ok()?;
			c18_from_sj(&mut rep, &s);
		}
		"json-syntax-value" => {
			let mut rd = Reader::new();
			let r = rd.read(case.get("doc")?.as_str()?.as_bytes(), true).root?;
			c18_from_js(&mut rep, &r);
		}
		_ => return None,
	}
	let _ = id;
	Some(rep.violations.iter().filter(|v| !matches!(v.signature.as_str(), "K1" | "K2" | "K3" | "K4" | "K5")).map(|v| format!("[{}] {}", v.signature, v.what)).collect())
}
