//! Executable model of `json_syntax::Object`: a plain ordered list of
//! key/value pairs with the documented semantics of each operation, plus the
//! monitor that compares the real object with it after every operation
//! (entries, operation results, every key query against a linear scan, and the
//! representation invariant of the key index through the verification hook).

use json_syntax::object::{Entry, Key};
use json_syntax::{Object, Value};

#[derive(Clone, Debug, PartialEq, Eq)]
pub struct Model {
	pub entries: Vec<(String, Value)>,
}

/// How a removal iterator is used.
#[derive(Clone, Copy, Debug, PartialEq, Eq)]
pub enum Consume {
	All,
	One,
	None,
}

pub const CONSUMES: [Consume; 3] = [Consume::All, Consume::One, Consume::None];

#[derive(Clone, Debug, PartialEq, Eq)]
pub enum Op {
	Push(String),
	PushEntry(String),
	PushFront(String),
	PushEntryFront(String),
	Insert(String, Consume),
	InsertFront(String, Consume),
	Remove(String, Consume),
	RemoveAt(usize),
	RemoveUnique(String),
	Sort,
	RebuildFromVec,
	RebuildFromIterEntries,
	RebuildFromIterPairs,
	ExtendEntries(Vec<String>),
	ExtendPairs(Vec<String>),
	GetMut(String),
	IterMut,
	GetUniqueMut(String),
	GetOrInsertWith(String),
	GetMutOrInsertWith(String),
	CloneContinue,
	CloneAndDropOriginalLater,
	/// `fresh.clone_from(&obj)` into a new empty object, continue on it.
	CloneFromIntoFresh,
	/// `used.clone_from(&obj)` into an object that already holds other entries.
	CloneFromIntoUsed,
	IntoIterRebuild,
	/// `Object::canonicalize()` (values of the histories are already canonical numbers, so this is the
	/// RFC 8785 member sort: UTF-16 key order, ties by value, index rebuilt).
	Canonicalize,
}

impl Model {
	pub fn new() -> Self {
		Model { entries: Vec::new() }
	}

	pub fn positions(&self, k: &str) -> Vec<usize> {
		self.entries
			.iter()
			.enumerate()
			.filter(|(_, e)| e.0 == k)
			.map(|(i, _)| i)
			.collect()
	}

	fn remove_all(&mut self, k: &str) -> Vec<(String, Value)> {
		let mut removed = Vec::new();
		let mut i = 0;
		while i < self.entries.len() {
			if self.entries[i].0 == k {
				removed.push(self.entries.remove(i));
			} else {
				i += 1;
			}
		}
		removed
	}
}

fn pair(e: &Entry) -> (String, Value) {
	(e.key.as_str().to_string(), e.value.clone())
}

fn pairs<'a>(it: impl Iterator<Item = &'a Entry>) -> Vec<(String, Value)> {
	it.map(pair).collect()
}

/// Source of fresh, pairwise distinct values.
pub struct Fresh(pub u64);

impl Fresh {
	pub fn next(&mut self) -> Value {
		self.0 += 1;
		if self.0 % 3 == 2 {
			// the same integer in a spelling that is not canonical and orders differently as text
			// (0.5e1 < 1 as spellings, 5 > 1 once canonical)
			let d = self.0.to_string();
			let s = format!("0.{}e{}", d, d.len());
			if let Ok(n) = json_syntax::NumberBuf::new(s.into_bytes().into()) {
				return Value::Number(n);
			}
		}
		Value::Number(self.0.into())
	}
}

fn key(k: &str) -> Key {
	k.into()
}

fn take<I: Iterator<Item = Entry>>(mut it: I, c: Consume) -> Vec<(String, Value)> {
	match c {
		Consume::All => it.by_ref().map(|e| pair(&e)).collect(),
		Consume::One => it.next().map(|e| pair(&e)).into_iter().collect(),
		Consume::None => Vec::new(),
	}
	// `it` is dropped here: the removal must complete
}

fn expect_prefix(what: &str, got: &[(String, Value)], want: &[(String, Value)], c: Consume) -> Result<(), String> {
	let n = match c {
		Consume::All => want.len(),
		Consume::One => want.len().min(1),
		Consume::None => 0,
	};
	if got != &want[..n] {
		return Err(format!("{}: iterator yielded {:?}, expected {:?} (of {:?})", what, got, &want[..n], want));
	}
	Ok(())
}

/// Applies `op` to the real object and to the model and compares the results
/// of the operation. The caller then runs `check_state`.
/// Collects into an `Object` from iterators whose `size_hint` is exact (0), has
/// a lower bound of 0 (1: `filter`, 3: `flat_map`) or says nothing (2: `from_fn`).
fn collect_with_style<T>(v: Vec<T>, style: usize) -> Object
where
	Object: FromIterator<T>,
{
	match style {
		0 => v.into_iter().collect(),
		1 => v.into_iter().filter(|_| true).collect(),
		2 => {
			let mut it = v.into_iter();
			std::iter::from_fn(move || it.next()).collect()
		}
		_ => v.into_iter().flat_map(Some).collect(),
	}
}

fn extend_with_style<T>(obj: &mut Object, v: Vec<T>, style: usize)
where
	Object: Extend<T>,
{
	match style {
		0 => obj.extend(v),
		1 => obj.extend(v.into_iter().filter(|_| true)),
		2 => {
			let mut it = v.into_iter();
			obj.extend(std::iter::from_fn(move || it.next()))
		}
		_ => obj.extend(v.into_iter().flat_map(Some)),
	}
}

pub fn apply(op: &Op, obj: &mut Object, m: &mut Model, fresh: &mut Fresh) -> Result<(), String> {
	match op {
		Op::Push(k) | Op::PushEntry(k) => {
			let v = fresh.next();
			let want = m.positions(k).is_empty();
			m.entries.push((k.clone(), v.clone()));
			let got = if matches!(op, Op::Push(_)) {
				obj.push(key(k), v)
			} else {
				obj.push_entry(Entry::new(key(k), v))
			};
			if got != want {
				return Err(format!("{:?} returned {}, expected fresh-key flag {}", op, got, want));
			}
		}
		Op::PushFront(k) | Op::PushEntryFront(k) => {
			let v = fresh.next();
			let want = m.positions(k).is_empty();
			m.entries.insert(0, (k.clone(), v.clone()));
			let got = if matches!(op, Op::PushFront(_)) {
				obj.push_front(key(k), v)
			} else {
				obj.push_entry_front(Entry::new(key(k), v))
			};
			if got != want {
				return Err(format!("{:?} returned {}, expected fresh-key flag {}", op, got, want));
			}
		}
		Op::Insert(k, c) => {
			let v = fresh.next();
			let pos = m.positions(k);
			let want: Option<Vec<(String, Value)>> = if pos.is_empty() {
				m.entries.push((k.clone(), v.clone()));
				None
			} else {
				let first = pos[0];
				let old = std::mem::replace(&mut m.entries[first], (k.clone(), v.clone()));
				let mut removed = vec![old];
				// the other occurrences are removed, in order
				let mut i = first + 1;
				while i < m.entries.len() {
					if m.entries[i].0 == *k {
						removed.push(m.entries.remove(i));
					} else {
						i += 1;
					}
				}
				Some(removed)
			};
			let got = obj.insert(key(k), v).map(|it| take(it, *c));
			match (&got, &want) {
				(None, None) => (),
				(Some(g), Some(w)) => expect_prefix(&format!("{:?}", op), g, w, *c)?,
				_ => return Err(format!("{:?} returned {:?}, expected {:?}", op, got.is_some(), want)),
			}
		}
		Op::InsertFront(k, c) => {
			let v = fresh.next();
			let mut want = Vec::new();
			if m.entries.first().map(|e| e.0 == *k).unwrap_or(false) {
				let old = std::mem::replace(&mut m.entries[0], (k.clone(), v.clone()));
				want.push(old);
			} else {
				m.entries.insert(0, (k.clone(), v.clone()));
			}
			let mut i = 1;
			while i < m.entries.len() {
				if m.entries[i].0 == *k {
					want.push(m.entries.remove(i));
				} else {
					i += 1;
				}
			}
			let got = take(obj.insert_front(key(k), v), *c);
			expect_prefix(&format!("{:?}", op), &got, &want, *c)?;
		}
		Op::Remove(k, c) => {
			let want = m.remove_all(k);
			let got = take(obj.remove(k.as_str()), *c);
			expect_prefix(&format!("{:?}", op), &got, &want, *c)?;
		}
		Op::RemoveAt(i) => {
			let want = if *i < m.entries.len() { Some(m.entries.remove(*i)) } else { None };
			let got = obj.remove_at(*i).map(|e| pair(&e));
			if got != want {
				return Err(format!("remove_at({}) returned {:?}, expected {:?}", i, got, want));
			}
		}
		Op::RemoveUnique(k) => {
			let removed = m.remove_all(k);
			let got = obj.remove_unique(k.as_str());
			match (removed.len(), got) {
				(0, Ok(None)) => (),
				(1, Ok(Some(e))) if pair(&e) == removed[0] => (),
				(n, Err(d)) if n >= 2 && pair(&d.0) == removed[0] && pair(&d.1) == removed[1] => (),
				(n, got) => {
					return Err(format!(
						"remove_unique({:?}) with {} matching entries returned {:?}",
						k,
						n,
						got.map(|o| o.map(|e| pair(&e))).map_err(|d| (pair(&d.0), pair(&d.1)))
					))
				}
			}
		}
		Op::Sort => {
			// key, then value (the value order is `Value`'s own `Ord`)
			m.entries.sort_by(|a, b| a.0.as_str().cmp(b.0.as_str()).then_with(|| a.1.cmp(&b.1)));
			obj.sort();
		}
		Op::RebuildFromVec => {
			// the vector handed over may have spare capacity (built by pushes) or none
			let src = obj.entries();
			let style = (fresh.0 as usize + src.len()) % 4;
			let mut v: Vec<Entry> = match style {
				0 => src.to_vec(),
				1 => Vec::with_capacity(src.len() + 5),
				2 => Vec::with_capacity(src.len() * 2 + 1),
				_ => Vec::new(),
			};
			if style != 0 {
				for e in src {
					v.push(e.clone());
				}
			}
			*obj = Object::from_vec(v);
		}
		Op::RebuildFromIterEntries => {
			let v: Vec<Entry> = obj.entries().to_vec();
			*obj = collect_with_style(v, (fresh.0 as usize + m.entries.len()) % 4);
		}
		Op::RebuildFromIterPairs => {
			let v: Vec<(Key, Value)> = obj.iter().map(|e| (e.key.clone(), e.value.clone())).collect();
			*obj = collect_with_style(v, (fresh.0 as usize + m.entries.len()) % 4);
		}
		Op::IntoIterRebuild => {
			let o = std::mem::take(obj);
			let v: Vec<Entry> = o.into_iter().collect();
			*obj = Object::from(v);
		}
		Op::ExtendEntries(ks) => {
			let mut add = Vec::new();
			let style = (fresh.0 as usize + m.entries.len()) % 4;
			for k in ks {
				let v = fresh.next();
				m.entries.push((k.clone(), v.clone()));
				add.push(Entry::new(key(k), v));
			}
			extend_with_style(obj, add, style);
		}
		Op::ExtendPairs(ks) => {
			let mut add: Vec<(Key, Value)> = Vec::new();
			let style = (fresh.0 as usize + m.entries.len()) % 4;
			for k in ks {
				let v = fresh.next();
				m.entries.push((k.clone(), v.clone()));
				add.push((key(k), v));
			}
			extend_with_style(obj, add, style);
		}
		Op::GetMut(k) => {
			let pos = m.positions(k);
			let mut n = 0;
			let mut it = obj.get_mut(k.as_str());
			// consume the references one at a time
			loop {
				let Some(r) = it.next() else { break };
				if n >= pos.len() {
					return Err(format!("get_mut({:?}) yields more than the {} matching values", k, pos.len()));
				}
				if *r != m.entries[pos[n]].1 {
					return Err(format!("get_mut({:?}) item {} is {:?}, expected {:?}", k, n, r, m.entries[pos[n]].1));
				}
				let v = fresh.next();
				*r = v.clone();
				m.entries[pos[n]].1 = v;
				n += 1;
			}
			if n != pos.len() {
				return Err(format!("get_mut({:?}) yielded {} values, {} entries carry the key", k, n, pos.len()));
			}
		}
		Op::IterMut => {
			let mut n = 0;
			for (k, v) in obj.iter_mut() {
				if n >= m.entries.len() || k.as_str() != m.entries[n].0 || *v != m.entries[n].1 {
					return Err(format!("iter_mut item {} is ({:?}, {:?}), model has {:?}", n, k, v, m.entries.get(n)));
				}
				let nv = fresh.next();
				*v = nv.clone();
				m.entries[n].1 = nv;
				n += 1;
			}
			if n != m.entries.len() {
				return Err(format!("iter_mut yielded {} items, expected {}", n, m.entries.len()));
			}
		}
		Op::GetUniqueMut(k) => {
			let pos = m.positions(k);
			let nv = fresh.next();
			match (pos.len(), obj.get_unique_mut(k.as_str())) {
				(0, Ok(None)) => (),
				(1, Ok(Some(r))) if *r == m.entries[pos[0]].1 => {
					*r = nv.clone();
					m.entries[pos[0]].1 = nv;
				}
				(n, Err(d)) if n >= 2 && pair(d.0) == m.entries[pos[0]] && pair(d.1) == m.entries[pos[1]] => (),
				(n, got) => {
					return Err(format!(
						"get_unique_mut({:?}) with {} matching entries returned {:?}",
						k,
						n,
						got.map(|o| o.map(|v| v.clone())).map_err(|d| (pair(d.0), pair(d.1)))
					))
				}
			}
		}
		Op::GetOrInsertWith(k) | Op::GetMutOrInsertWith(k) => {
			let pos = m.positions(k);
			let nv = fresh.next();
			let want = match pos.first() {
				Some(&i) => m.entries[i].1.clone(),
				None => {
					m.entries.push((k.clone(), nv.clone()));
					nv.clone()
				}
			};
			let mut called = false;
			let got = if matches!(op, Op::GetOrInsertWith(_)) {
				obj.get_or_insert_with(k.as_str(), || {
					called = true;
					nv.clone()
				})
				.clone()
			} else {
				let slot = obj.get_mut_or_insert_with(k.as_str(), || {
					called = true;
					nv.clone()
				});
				let seen = slot.clone();
				if let Some(&i) = pos.first() {
					// overwrite the existing value in place through the returned reference
					let nv2 = fresh.next();
					*slot = nv2.clone();
					m.entries[i].1 = nv2;
				}
				seen
			};
			if got != want || called != pos.is_empty() {
				return Err(format!("{:?} returned {:?} (constructor called: {}), expected {:?}", op, got, called, want));
			}
		}
		Op::CloneContinue => {
			let c = obj.clone();
			check_state(obj, m).map_err(|e| format!("original after clone: {}", e))?;
			*obj = c;
		}
		Op::Canonicalize => {
			// values first (each on its own), then the entries by key and canonical value
			for e in m.entries.iter_mut() {
				e.1.canonicalize();
			}
			m.entries.sort_by(|a, b| a.0.encode_utf16().cmp(b.0.encode_utf16()).then_with(|| a.1.cmp(&b.1)));
			obj.canonicalize();
		}
		Op::CloneFromIntoFresh => {
			let mut t = Object::new();
			t.clone_from(obj);
			check_state(obj, m).map_err(|e| format!("source after clone_from: {}", e))?;
			*obj = t;
		}
		Op::CloneFromIntoUsed => {
			let mut t = Object::new();
			for i in 0..(3 + m.entries.len() % 11) {
				t.push(key(&format!("\u{1}old{}", i % 5)), Value::Null);
			}
			t.clone_from(obj);
			check_state(obj, m).map_err(|e| format!("source after clone_from: {}", e))?;
			*obj = t;
		}
		Op::CloneAndDropOriginalLater => {
			// mutate the original after cloning; the clone must be unaffected
			let c = obj.clone();
			let before = m.clone();
			obj.push(key("\u{1}scratch"), Value::Null);
			obj.remove_at(0);
			check_state(&c, &before).map_err(|e| format!("clone after the original was modified: {}", e))?;
			*obj = c;
		}
	}
	Ok(())
}

/// Result of the full comparison of one state.
/// Buckets whose positions were not in increasing order (noted in the evidence, not a violation).
pub static BUCKET_ORDER_ANOMALIES: std::sync::atomic::AtomicU64 = std::sync::atomic::AtomicU64::new(0);

/// True once every sixteen calls (per thread).
fn miri_sample() -> bool {
	thread_local!(static N: std::cell::Cell<u32> = const { std::cell::Cell::new(0) });
	N.with(|n| {
		n.set(n.get().wrapping_add(1));
		n.get() % 16 == 1
	})
}

pub struct StateStats {
	pub queries: u64,
	pub capacity: usize,
	pub buckets: usize,
}

/// Compares the object with the model: entries, every key query against a
/// linear scan, and the index representation invariant (hook).
pub fn check_state(obj: &Object, m: &Model) -> Result<StateStats, String> {
	let got = pairs(obj.iter());
	if got != m.entries {
		return Err(format!("entries are {:?}, model has {:?}", got, m.entries));
	}
	if pairs(obj.entries().iter()) != m.entries || obj.len() != m.entries.len() || obj.is_empty() != m.entries.is_empty() {
		return Err(format!("entries()/len()/is_empty() disagree with iter(): len {}", obj.len()));
	}
	if obj.first().map(pair) != m.entries.first().cloned() || obj.last().map(pair) != m.entries.last().cloned() {
		return Err("first()/last() disagree with the model".into());
	}
	// the other views of the same entries: the accessors of an entry, capacity, iteration through
	// `&Object` / `&mut Object` / `Object`, the Debug rendering (must not panic)
	if obj.capacity() < obj.len() {
		return Err(format!("capacity() = {} is smaller than len() = {}", obj.capacity(), obj.len()));
	}
	for (e, want) in obj.entries().iter().zip(&m.entries) {
		let r = e.as_ref();
		let (k, v) = e.as_pair();
		let (k2, v2) = e.clone().into_pair();
		if e.as_key().as_str() != want.0 || *e.as_value() != want.1 || k.as_str() != want.0 || *v != want.1 || k2.as_str() != want.0 || v2 != want.1 || r.key.as_str() != want.0 || **r.as_value() != want.1 || e.clone().into_key().as_str() != want.0 || e.clone().into_value() != want.1 {
			return Err(format!("the accessors of entry {:?} disagree with its fields", want));
		}
	}
	{
		let by_ref: Vec<(String, Value)> = obj.into_iter().map(pair).collect();
		let mut c = obj.clone();
		let by_mut: Vec<(String, Value)> = (&mut c).into_iter().map(|(k, v)| (k.as_str().to_string(), v.clone())).collect();
		let by_value: Vec<(String, Value)> = c.into_iter().map(|e| pair(&e)).collect();
		if by_ref != m.entries || by_mut != m.entries || by_value != m.entries {
			return Err("iteration through &Object / &mut Object / Object disagrees with the model".into());
		}
		if m.entries.len() <= 8 {
			let d = format!("{:?}", obj);
			if d.is_empty() {
				return Err("empty Debug rendering".into());
			}
		}
	}
	let mut keys: Vec<&str> = m.entries.iter().map(|e| e.0.as_str()).collect();
	keys.sort();
	keys.dedup();
	let distinct = keys.len();
	keys.push("\u{2}absent");
	let mut queries = 0u64;
	for k in keys {
		let pos = m.positions(k);
		let scan: Vec<(usize, (String, Value))> = pos.iter().map(|&i| (i, m.entries[i].clone())).collect();
		queries += 10;
		if obj.contains_key(k) != !pos.is_empty() {
			return Err(format!("contains_key({:?}) = {}, linear scan finds {:?}", k, obj.contains_key(k), pos));
		}
		if obj.index_of(k) != pos.first().copied() {
			return Err(format!("index_of({:?}) = {:?}, linear scan finds {:?}", k, obj.index_of(k), pos));
		}
		if obj.redundant_index_of(k) != pos.get(1).copied() {
			return Err(format!("redundant_index_of({:?}) = {:?}, linear scan finds {:?}", k, obj.redundant_index_of(k), pos));
		}
		let got: Vec<usize> = obj.indexes_of(k).collect();
		if got != pos {
			return Err(format!("indexes_of({:?}) = {:?}, linear scan finds {:?}", k, got, pos));
		}
		let got: Vec<Value> = obj.get(k).cloned().collect();
		if got != scan.iter().map(|s| s.1 .1.clone()).collect::<Vec<_>>() {
			return Err(format!("get({:?}) = {:?}, linear scan finds {:?}", k, got, scan));
		}
		let got = pairs(obj.get_entries(k));
		if got != scan.iter().map(|s| s.1.clone()).collect::<Vec<_>>() {
			return Err(format!("get_entries({:?}) = {:?}, linear scan finds {:?}", k, got, scan));
		}
		let got: Vec<(usize, Value)> = obj.get_with_index(k).map(|(i, v)| (i, v.clone())).collect();
		if got != scan.iter().map(|s| (s.0, s.1 .1.clone())).collect::<Vec<_>>() {
			return Err(format!("get_with_index({:?}) = {:?}, linear scan finds {:?}", k, got, scan));
		}
		let got: Vec<(usize, (String, Value))> = obj.get_entries_with_index(k).map(|(i, e)| (i, pair(e))).collect();
		if got != scan {
			return Err(format!("get_entries_with_index({:?}) = {:?}, linear scan finds {:?}", k, got, scan));
		}
		if pos.len() >= 2 && (!cfg!(miri) || miri_sample()) {
			// every way of consuming the lookup iterators must agree (nth, skip, step_by, count, last, size_hint)
			// (under the interpreter: on one state in sixteen, the protocol costs seconds there)
			queries += crate::monitor::check_iter(&format!("indexes_of({:?})", k), &|| obj.indexes_of(k), &pos)?;
			queries += crate::monitor::check_iter_ord(&format!("indexes_of({:?})", k), &|| obj.indexes_of(k), &|i: usize| i)?;
			queries += crate::monitor::check_iter_ord(&format!("get({:?})", k), &|| obj.get(k), &|v: &Value| v as *const Value as usize)?;
			queries += crate::monitor::check_iter_ord(&format!("get_with_index({:?})", k), &|| obj.get_with_index(k), &|(i, _): (usize, &Value)| i)?;
			let ptrs: Vec<usize> = pos.iter().map(|&i| &obj.entries()[i].value as *const Value as usize).collect();
			queries += crate::monitor::check_iter_by(&format!("get({:?})", k), &|| obj.get(k), &|v: &Value| v as *const Value as usize, &ptrs)?;
			let withidx: Vec<(usize, usize)> = pos.iter().map(|&i| (i, &obj.entries()[i] as *const Entry as usize)).collect();
			queries += crate::monitor::check_iter_by(
				&format!("get_entries_with_index({:?})", k),
				&|| obj.get_entries_with_index(k),
				&|(i, e): (usize, &Entry)| (i, e as *const Entry as usize),
				&withidx,
			)?;
			let eptrs: Vec<usize> = withidx.iter().map(|x| x.1).collect();
			queries += crate::monitor::check_iter_by(&format!("get_entries({:?})", k), &|| obj.get_entries(k), &|e: &Entry| e as *const Entry as usize, &eptrs)?;
			let vwi: Vec<(usize, usize)> = pos.iter().zip(&ptrs).map(|(i, p)| (*i, *p)).collect();
			queries += crate::monitor::check_iter_by(&format!("get_with_index({:?})", k), &|| obj.get_with_index(k), &|(i, v): (usize, &Value)| (i, v as *const Value as usize), &vwi)?;
		}
		match (scan.len(), obj.get_unique(k)) {
			(0, Ok(None)) => (),
			(1, Ok(Some(v))) if *v == scan[0].1 .1 => (),
			(n, Err(d)) if n >= 2 && pair(d.0) == scan[0].1 && pair(d.1) == scan[1].1 => (),
			(n, got) => {
				return Err(format!(
					"get_unique({:?}) with {} matching entries returned {:?}",
					k,
					n,
					got.map(|o| o.cloned()).map_err(|d| (pair(d.0), pair(d.1)))
				))
			}
		}
		match (scan.len(), obj.get_unique_entry(k)) {
			(0, Ok(None)) => (),
			(1, Ok(Some(e))) if pair(e) == scan[0].1 => (),
			(n, Err(d)) if n >= 2 && pair(d.0) == scan[0].1 && pair(d.1) == scan[1].1 => (),
			(n, got) => {
				return Err(format!(
					"get_unique_entry({:?}) with {} matching entries returned {:?}",
					k,
					n,
					got.map(|o| o.map(pair)).map_err(|d| (pair(d.0), pair(d.1)))
				))
			}
		}
	}

	// representation invariant of the index (verification hook)
	let dump = obj.verif_index_dump();
	if dump.len != dump.buckets.len() {
		return Err(format!("index: table length {} but {} occupied buckets", dump.len, dump.buckets.len()));
	}
	if dump.buckets.len() != distinct {
		return Err(format!("index: {} buckets for {} distinct keys: {:?}", dump.buckets.len(), distinct, dump.buckets));
	}
	let n = m.entries.len();
	let mut seen = vec![false; n];
	let mut bucket_keys: Vec<&str> = Vec::new();
	let mut order_anomalies = 0u64;
	for (rep, other) in &dump.buckets {
		if *rep >= n {
			return Err(format!("index: representative {} out of range (len {})", rep, n));
		}
		let k = m.entries[*rep].0.as_str();
		if bucket_keys.contains(&k) {
			return Err(format!("index: two buckets for key {:?}: {:?}", k, dump.buckets));
		}
		bucket_keys.push(k);
		let mut prev = *rep;
		if seen[*rep] {
			return Err(format!("index: position {} appears twice: {:?}", rep, dump.buckets));
		}
		seen[*rep] = true;
		for &p in other {
			if p >= n {
				return Err(format!("index: position {} out of range (len {})", p, n));
			}
			if p <= prev {
				// the order inside a bucket is a matter of representation: what it must guarantee (positions
				// reported in increasing order) is checked through the queries; only noted here
				order_anomalies += 1;
			}
			if m.entries[p].0 != k {
				return Err(format!("index: bucket of {:?} lists position {} which holds key {:?}", k, p, m.entries[p].0));
			}
			if seen[p] {
				return Err(format!("index: position {} appears twice: {:?}", p, dump.buckets));
			}
			seen[p] = true;
			prev = p;
		}
	}
	if let Some(i) = seen.iter().position(|s| !*s) {
		return Err(format!("index: position {} (key {:?}) is in no bucket: {:?}", i, m.entries[i].0, dump.buckets));
	}
	if order_anomalies > 0 {
		BUCKET_ORDER_ANOMALIES.fetch_add(order_anomalies, std::sync::atomic::Ordering::Relaxed);
	}
	Ok(StateStats {
		queries,
		capacity: dump.capacity,
		buckets: dump.buckets.len(),
	})
}
