//! Reference printers, written from RFC 8785 section 3.2.2 (string escaping)
//! and from the documentation of `json_syntax::print::{Options, Limit}`.
//! No json-syntax code is used to produce the expected text.

use super::rfc8259::RVal;
use crate::rng::Rng;

#[derive(Clone, Copy, Debug, PartialEq, Eq)]
pub enum PIndent {
	Spaces(u8),
	Tabs(u8),
}

#[derive(Clone, Copy, Debug, PartialEq, Eq)]
pub enum PLimit {
	Always,
	Item(usize),
	Width(usize),
	ItemOrWidth(usize, usize),
}

/// Mirror of `json_syntax::print::Options`.
#[derive(Clone, Copy, Debug, PartialEq, Eq)]
pub struct POpts {
	pub indent: PIndent,
	pub array_begin: usize,
	pub array_end: usize,
	pub array_empty: usize,
	pub array_before_comma: usize,
	pub array_after_comma: usize,
	pub array_limit: Option<PLimit>,
	pub object_begin: usize,
	pub object_end: usize,
	pub object_empty: usize,
	pub object_before_comma: usize,
	pub object_after_comma: usize,
	pub object_before_colon: usize,
	pub object_after_colon: usize,
	pub object_limit: Option<PLimit>,
}

impl POpts {
	pub fn compact() -> Self {
		POpts {
			indent: PIndent::Spaces(0),
			array_begin: 0,
			array_end: 0,
			array_empty: 0,
			array_before_comma: 0,
			array_after_comma: 0,
			array_limit: None,
			object_begin: 0,
			object_end: 0,
			object_empty: 0,
			object_before_comma: 0,
			object_after_comma: 0,
			object_before_colon: 0,
			object_after_colon: 0,
			object_limit: None,
		}
	}

	pub fn inline() -> Self {
		POpts {
			indent: PIndent::Spaces(0),
			array_begin: 1,
			array_end: 1,
			array_empty: 0,
			array_before_comma: 0,
			array_after_comma: 1,
			array_limit: None,
			object_begin: 1,
			object_end: 1,
			object_empty: 0,
			object_before_comma: 0,
			object_after_comma: 1,
			object_before_colon: 0,
			object_after_colon: 1,
			object_limit: None,
		}
	}

	pub fn pretty() -> Self {
		POpts {
			indent: PIndent::Spaces(2),
			array_limit: Some(PLimit::ItemOrWidth(1, 16)),
			object_limit: Some(PLimit::ItemOrWidth(1, 16)),
			..Self::inline()
		}
	}

	/// The 13 numeric fields, by index.
	pub fn field_mut(&mut self, i: usize) -> &mut usize {
		match i {
			0 => &mut self.array_begin,
			1 => &mut self.array_end,
			2 => &mut self.array_empty,
			3 => &mut self.array_before_comma,
			4 => &mut self.array_after_comma,
			5 => &mut self.object_begin,
			6 => &mut self.object_end,
			7 => &mut self.object_empty,
			8 => &mut self.object_before_comma,
			9 => &mut self.object_after_comma,
			10 => &mut self.object_before_colon,
			_ => &mut self.object_after_colon,
		}
	}

	pub fn to_real(&self) -> json_syntax::print::Options {
		use json_syntax::print::{Indent, Limit, Options};
		let lim = |l: Option<PLimit>| {
			l.map(|l| match l {
				PLimit::Always => Limit::Always,
				PLimit::Item(i) => Limit::Item(i),
				PLimit::Width(w) => Limit::Width(w),
				PLimit::ItemOrWidth(i, w) => Limit::ItemOrWidth(i, w),
			})
		};
		let mut o = Options::compact();
		o.indent = match self.indent {
			PIndent::Spaces(n) => Indent::Spaces(n),
			PIndent::Tabs(n) => Indent::Tabs(n),
		};
		o.array_begin = self.array_begin;
		o.array_end = self.array_end;
		o.array_empty = self.array_empty;
		o.array_before_comma = self.array_before_comma;
		o.array_after_comma = self.array_after_comma;
		o.array_limit = lim(self.array_limit);
		o.object_begin = self.object_begin;
		o.object_end = self.object_end;
		o.object_empty = self.object_empty;
		o.object_before_comma = self.object_before_comma;
		o.object_after_comma = self.object_after_comma;
		o.object_before_colon = self.object_before_colon;
		o.object_after_colon = self.object_after_colon;
		o.object_limit = lim(self.object_limit);
		o
	}
}

pub const N_FIELDS: usize = 12;

/// RFC 8785 string serialization.
pub fn write_string(s: &str, out: &mut String) {
	out.push('"');
	for c in s.chars() {
		match c {
			'"' => out.push_str("\\\""),
			'\\' => out.push_str("\\\\"),
			'\u{8}' => out.push_str("\\b"),
			'\u{9}' => out.push_str("\\t"),
			'\u{a}' => out.push_str("\\n"),
			'\u{c}' => out.push_str("\\f"),
			'\u{d}' => out.push_str("\\r"),
			c if (c as u32) < 0x20 => {
				out.push_str("\\u00");
				out.push(char::from_digit((c as u32) >> 4, 16).unwrap());
				out.push(char::from_digit((c as u32) & 0xf, 16).unwrap());
			}
			c => out.push(c),
		}
	}
	out.push('"');
}

/// Number of characters `write_string` prints.
pub fn string_width(s: &str) -> usize {
	2 + s
		.chars()
		.map(|c| match c {
			'"' | '\\' | '\u{8}' | '\u{9}' | '\u{a}' | '\u{c}' | '\u{d}' => 2,
			c if (c as u32) < 0x20 => 6,
			_ => 1,
		})
		.sum::<usize>()
}

/// The unique minimal serialization: no whitespace, `,` and `:` only,
/// numbers verbatim, RFC 8785 escaping.
pub fn compact(v: &RVal, out: &mut String) {
	match v {
		RVal::Null => out.push_str("null"),
		RVal::Bool(true) => out.push_str("true"),
		RVal::Bool(false) => out.push_str("false"),
		RVal::Num(n) => out.push_str(n),
		RVal::Str(s) => write_string(s, out),
		RVal::Arr(a) => {
			out.push('[');
			for (i, x) in a.iter().enumerate() {
				if i > 0 {
					out.push(',')
				}
				compact(x, out);
			}
			out.push(']');
		}
		RVal::Obj(o) => {
			out.push('{');
			for (i, (k, x)) in o.iter().enumerate() {
				if i > 0 {
					out.push(',')
				}
				write_string(k, out);
				out.push(':');
				compact(x, out);
			}
			out.push('}');
		}
	}
}

fn limit_expands(l: Option<PLimit>, n: usize, width: usize) -> bool {
	match l {
		None => false,
		Some(PLimit::Always) => true,
		Some(PLimit::Item(i)) => n > i,
		Some(PLimit::Width(w)) => width > w,
		Some(PLimit::ItemOrWidth(i, w)) => n > i || width > w,
	}
}

/// Width of the one-line form, or `None` when the documented rules expand
/// the value (a child expands, or the limit is exceeded). `widths` collects
/// the one-line widths of all containers that *could* be printed on one line
/// as far as their children are concerned (used to pick thresholds).
pub fn one_line(v: &RVal, o: &POpts, widths: &mut Vec<(bool, usize, usize)>) -> Option<usize> {
	match v {
		RVal::Null | RVal::Bool(true) => Some(4),
		RVal::Bool(false) => Some(5),
		RVal::Num(n) => Some(n.chars().count()),
		RVal::Str(s) => Some(string_width(s)),
		RVal::Arr(a) => {
			let mut all = true;
			let mut w = if a.is_empty() { 2 + o.array_empty } else { 2 + o.array_begin + o.array_end };
			for (i, x) in a.iter().enumerate() {
				if i > 0 {
					w += 1 + o.array_before_comma + o.array_after_comma
				}
				match one_line(x, o, widths) {
					Some(cw) => w += cw,
					None => all = false,
				}
			}
			if !all {
				return None;
			}
			widths.push((false, a.len(), w));
			if limit_expands(o.array_limit, a.len(), w) {
				None
			} else {
				Some(w)
			}
		}
		RVal::Obj(e) => {
			let mut all = true;
			let mut w = if e.is_empty() { 2 + o.object_empty } else { 2 + o.object_begin + o.object_end };
			for (i, (k, x)) in e.iter().enumerate() {
				if i > 0 {
					w += 1 + o.object_before_comma + o.object_after_comma
				}
				w += string_width(k) + o.object_before_colon + 1 + o.object_after_colon;
				match one_line(x, o, widths) {
					Some(cw) => w += cw,
					None => all = false,
				}
			}
			if !all {
				return None;
			}
			widths.push((true, e.len(), w));
			if limit_expands(o.object_limit, e.len(), w) {
				None
			} else {
				Some(w)
			}
		}
	}
}

fn spaces(n: usize, out: &mut String) {
	for _ in 0..n {
		out.push(' ')
	}
}

fn indent(o: &POpts, depth: usize, out: &mut String) {
	for _ in 0..depth {
		match o.indent {
			PIndent::Spaces(n) => {
				for _ in 0..n {
					out.push(' ')
				}
			}
			PIndent::Tabs(n) => {
				for _ in 0..n {
					out.push('\t')
				}
			}
		}
	}
}

/// The documented layout of `v` under `o`.
pub fn layout(v: &RVal, o: &POpts, depth: usize, out: &mut String) {
	let mut scratch = Vec::new();
	match v {
		RVal::Null => out.push_str("null"),
		RVal::Bool(true) => out.push_str("true"),
		RVal::Bool(false) => out.push_str("false"),
		RVal::Num(n) => out.push_str(n),
		RVal::Str(s) => write_string(s, out),
		RVal::Arr(a) => {
			out.push('[');
			if one_line(v, o, &mut scratch).is_some() {
				if a.is_empty() {
					spaces(o.array_empty, out)
				} else {
					spaces(o.array_begin, out);
					for (i, x) in a.iter().enumerate() {
						if i > 0 {
							spaces(o.array_before_comma, out);
							out.push(',');
							spaces(o.array_after_comma, out);
						}
						layout(x, o, depth + 1, out);
					}
					spaces(o.array_end, out);
				}
			} else {
				out.push('\n');
				for (i, x) in a.iter().enumerate() {
					if i > 0 {
						spaces(o.array_before_comma, out);
						out.push_str(",\n");
					}
					indent(o, depth + 1, out);
					layout(x, o, depth + 1, out);
				}
				if !a.is_empty() {
					out.push('\n');
				}
				indent(o, depth, out);
			}
			out.push(']');
		}
		RVal::Obj(e) => {
			out.push('{');
			if one_line(v, o, &mut scratch).is_some() {
				if e.is_empty() {
					spaces(o.object_empty, out)
				} else {
					spaces(o.object_begin, out);
					for (i, (k, x)) in e.iter().enumerate() {
						if i > 0 {
							spaces(o.object_before_comma, out);
							out.push(',');
							spaces(o.object_after_comma, out);
						}
						write_string(k, out);
						spaces(o.object_before_colon, out);
						out.push(':');
						spaces(o.object_after_colon, out);
						layout(x, o, depth + 1, out);
					}
					spaces(o.object_end, out);
				}
			} else {
				out.push('\n');
				for (i, (k, x)) in e.iter().enumerate() {
					if i > 0 {
						spaces(o.object_before_comma, out);
						out.push_str(",\n");
					}
					indent(o, depth + 1, out);
					write_string(k, out);
					spaces(o.object_before_colon, out);
					out.push(':');
					spaces(o.object_after_colon, out);
					layout(x, o, depth + 1, out);
				}
				if !e.is_empty() {
					out.push('\n');
				}
				indent(o, depth, out);
			}
			out.push('}');
		}
	}
}

/// Removes insignificant whitespace (outside string literals).
pub fn strip_insignificant(text: &str) -> String {
	let mut out = String::with_capacity(text.len());
	let mut in_str = false;
	let mut esc = false;
	for c in text.chars() {
		if in_str {
			out.push(c);
			if esc {
				esc = false
			} else if c == '\\' {
				esc = true
			} else if c == '"' {
				in_str = false
			}
		} else if c == '"' {
			in_str = true;
			out.push(c)
		} else if !matches!(c, ' ' | '\t' | '\n' | '\r') {
			out.push(c)
		}
	}
	out
}

pub fn gen_limit(rng: &mut Rng, widths: &[(bool, usize, usize)], for_obj: bool) -> Option<PLimit> {
	// thresholds straddle the actual widths / item counts of the containers in the value
	let around = |rng: &mut Rng, pick_width: bool| -> usize {
		let cands: Vec<usize> = widths
			.iter()
			.filter(|w| w.0 == for_obj)
			.map(|w| if pick_width { w.2 } else { w.1 })
			.collect();
		if rng.chance(1, 14) {
			// thresholds no width or count can reach
			[usize::MAX, usize::MAX - 1, u32::MAX as usize, (u32::MAX as usize) + 1, 1 << 16, (1 << 16) - 1, i64::MAX as usize][rng.below(7)]
		} else if cands.is_empty() || rng.chance(1, 5) {
			rng.below(41)
		} else {
			let c = cands[rng.below(cands.len())];
			(c + rng.below(3)).saturating_sub(1)
		}
	};
	match rng.below(8) {
		0 => None,
		1 => Some(PLimit::Always),
		2..=3 => Some(PLimit::Item(around(rng, false))),
		4..=5 => Some(PLimit::Width(around(rng, true))),
		_ => Some(PLimit::ItemOrWidth(around(rng, false), around(rng, true))),
	}
}

pub fn gen_indent(rng: &mut Rng) -> PIndent {
	if rng.chance(2, 3) {
		PIndent::Spaces(rng.below(5) as u8)
	} else {
		PIndent::Tabs(rng.below(3) as u8)
	}
}

/// A random option record: every numeric field in 0..=3, array and object
/// fields independent.
pub fn gen_opts(rng: &mut Rng) -> POpts {
	let mut o = POpts::compact();
	for i in 0..N_FIELDS {
		*o.field_mut(i) = match rng.below(40) {
			0 => [31, 32, 33, 64, 100][rng.below(5)],
			1 => rng.range(4, 12),
			2..=20 => rng.below(2),
			_ => rng.below(4),
		};
	}
	o.indent = gen_indent(rng);
	o
}

/// All records that differ from `base` in at most two numeric fields
/// (values 0..=3): exhaustive pairwise cover.
pub fn pairwise_records(base: &POpts) -> Vec<POpts> {
	let mut out = vec![*base];
	for i in 0..N_FIELDS {
		for a in 0..4usize {
			let mut o = *base;
			*o.field_mut(i) = a;
			if o != *base {
				out.push(o);
			}
			for j in (i + 1)..N_FIELDS {
				for b in 0..4usize {
					let mut p = o;
					*p.field_mut(j) = b;
					if p != o && p != *base {
						out.push(p);
					}
				}
			}
		}
	}
	out
}
