pub mod objmodel;
pub mod rfc8259;
