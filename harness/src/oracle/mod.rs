pub mod jcs;
pub mod objmodel;
pub mod print;
pub mod rfc8259;
