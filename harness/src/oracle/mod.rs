pub mod rfc8259;
