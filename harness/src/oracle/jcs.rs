//! Reference implementation of RFC 8785 (JSON Canonicalization Scheme),
//! independent of ryu-js, lexical and json-number.
//!
//! Numbers: exact decimal -> nearest double with `str::parse::<f64>` (correctly
//! rounded) -> ECMAScript `Number::toString` computed from the *exact* decimal
//! expansion of the double (shortest digit string that round-trips; among
//! those the closest; on an exact tie the even one).

use super::print::write_string;
use super::rfc8259::RVal;

/// Shortest round-trip digits of a positive finite double, ECMAScript rules.
/// Returns (digits without trailing zeros, n) with value = 0.digits x 10^n.
pub fn es_digits(m: f64) -> (String, i32) {
	assert!(m.is_finite() && m > 0.0);
	// exact expansion: d.ddd...e[-]x with 800 fractional digits (a double has < 770 significant digits)
	let exact = format!("{:.800e}", m);
	let (mant, exp) = exact.split_once('e').expect("exponent");
	let x: i32 = exp.parse().expect("exponent value");
	let digits: Vec<u8> = mant.bytes().filter(|b| b.is_ascii_digit()).map(|b| b - b'0').collect();
	for k in 1..=17usize {
		let t: u64 = digits[..k].iter().fold(0u64, |a, d| a * 10 + *d as u64);
		// value = t.rest x 10^(x-k+1); candidates t and t+1 at that scale
		let scale = x - k as i32 + 1;
		let roundtrips = |s: u64| -> bool { format!("{}e{}", s, scale).parse::<f64>().map(|p| p == m).unwrap_or(false) };
		let lo = t >= 10u64.pow(k as u32 - 1) && roundtrips(t);
		let hi = roundtrips(t + 1);
		let pick = match (lo, hi) {
			(false, false) => continue,
			(true, false) => t,
			(false, true) => t + 1,
			(true, true) => {
				// closer one; exact tie -> even
				let rest = &digits[k..];
				let first = rest[0];
				let tail_zero = rest[1..].iter().all(|d| *d == 0);
				if first < 5 {
					t
				} else if first > 5 || !tail_zero {
					t + 1
				} else if t % 2 == 0 {
					t
				} else {
					t + 1
				}
			}
		};
		let mut s = pick.to_string();
		let mut n = x + 1 + (s.len() as i32 - k as i32);
		while s.len() > 1 && s.ends_with('0') {
			s.pop();
		}
		let _ = &mut n;
		return (s, n);
	}
	panic!("no 17-digit representation round-trips for {:e}", m);
}

/// ECMAScript Number::toString for a finite double.
pub fn es_number_to_string(m: f64) -> String {
	if m == 0.0 {
		return "0".to_string();
	}
	let mut out = String::new();
	if m < 0.0 {
		out.push('-')
	}
	let (s, n) = es_digits(m.abs());
	let k = s.len() as i32;
	if k <= n && n <= 21 {
		out.push_str(&s);
		for _ in 0..(n - k) {
			out.push('0')
		}
	} else if 0 < n && n <= 21 {
		out.push_str(&s[..n as usize]);
		out.push('.');
		out.push_str(&s[n as usize..]);
	} else if -6 < n && n <= 0 {
		out.push_str("0.");
		for _ in 0..(-n) {
			out.push('0')
		}
		out.push_str(&s);
	} else {
		let e = n - 1;
		out.push_str(&s[..1]);
		if k > 1 {
			out.push('.');
			out.push_str(&s[1..]);
		}
		out.push('e');
		out.push(if e < 0 { '-' } else { '+' });
		out.push_str(&e.abs().to_string());
	}
	out
}

/// The double nearest to a JSON number spelling.
pub fn nearest_double(spelling: &str) -> f64 {
	spelling.parse::<f64>().expect("JSON numbers are valid Rust float literals")
}

pub fn canonical_number(spelling: &str) -> String {
	es_number_to_string(nearest_double(spelling))
}

pub fn utf16_cmp(a: &str, b: &str) -> std::cmp::Ordering {
	a.encode_utf16().cmp(b.encode_utf16())
}

/// RFC 8785 canonical form of an I-JSON value.
pub fn jcs(v: &RVal, out: &mut String) {
	match v {
		RVal::Null => out.push_str("null"),
		RVal::Bool(true) => out.push_str("true"),
		RVal::Bool(false) => out.push_str("false"),
		RVal::Num(n) => out.push_str(&canonical_number(n)),
		RVal::Str(s) => write_string(s, out),
		RVal::Arr(a) => {
			out.push('[');
			for (i, x) in a.iter().enumerate() {
				if i > 0 {
					out.push(',')
				}
				jcs(x, out);
			}
			out.push(']');
		}
		RVal::Obj(o) => {
			let mut idx: Vec<usize> = (0..o.len()).collect();
			idx.sort_by(|a, b| utf16_cmp(&o[*a].0, &o[*b].0));
			out.push('{');
			for (i, j) in idx.into_iter().enumerate() {
				if i > 0 {
					out.push(',')
				}
				write_string(&o[j].0, out);
				out.push(':');
				jcs(&o[j].1, out);
			}
			out.push('}');
		}
	}
}

/// Self-test: RFC 8785 appendix B and the sorting example of section 3.2.3.
pub fn selftest() -> Result<usize, String> {
	let table: [(u64, &str); 24] = [
		(0x0000000000000000, "0"),
		(0x8000000000000000, "0"),
		(0x0000000000000001, "5e-324"),
		(0x8000000000000001, "-5e-324"),
		(0x7fefffffffffffff, "1.7976931348623157e+308"),
		(0xffefffffffffffff, "-1.7976931348623157e+308"),
		(0x4340000000000000, "9007199254740992"),
		(0xc340000000000000, "-9007199254740992"),
		(0x4430000000000000, "295147905179352830000"),
		(0x44b52d02c7e14af5, "9.999999999999997e+22"),
		(0x44b52d02c7e14af6, "1e+23"),
		(0x44b52d02c7e14af7, "1.0000000000000001e+23"),
		(0x444b1ae4d6e2ef4e, "999999999999999700000"),
		(0x444b1ae4d6e2ef4f, "999999999999999900000"),
		(0x444b1ae4d6e2ef50, "1e+21"),
		(0x3eb0c6f7a0b5ed8c, "9.999999999999997e-7"),
		(0x3eb0c6f7a0b5ed8d, "0.000001"),
		(0x41b3de4355555553, "333333333.3333332"),
		(0x41b3de4355555554, "333333333.33333325"),
		(0x41b3de4355555555, "333333333.3333333"),
		(0x41b3de4355555556, "333333333.3333334"),
		(0x41b3de4355555557, "333333333.33333343"),
		(0xbecbf647612f3696, "-0.0000033333333333333333"),
		(0x43143ff3c1cb0959, "1424953923781206.2"),
	];
	for (bits, want) in table {
		let got = es_number_to_string(f64::from_bits(bits));
		if got != want {
			return Err(format!("JCS number self-test: {:016x} -> {}, RFC 8785 appendix B says {}", bits, got, want));
		}
	}
	let keys = ["\u{20ac}", "\r", "\u{fb33}", "1", "\u{1f600}", "\u{80}", "\u{f6}"];
	let mut sorted = keys.to_vec();
	sorted.sort_by(|a, b| utf16_cmp(a, b));
	let want = ["\r", "1", "\u{80}", "\u{f6}", "\u{20ac}", "\u{1f600}", "\u{fb33}"];
	if sorted != want {
		return Err(format!("JCS sorting self-test: {:?}", sorted));
	}
	// a few spellings
	for (s, want) in [("1E30", "1e+30"), ("4.50", "4.5"), ("2e-3", "0.002"), ("0.000000000000000000000000001", "1e-27"), ("333333333.33333329", "333333333.3333333"), ("-0", "0"), ("-0.0e5", "0"), ("100", "100"), ("1e21", "1e+21"), ("123456789012345678901", "123456789012345680000")] {
		if canonical_number(s) != want {
			return Err(format!("JCS number self-test: {} -> {}, expected {}", s, canonical_number(s), want));
		}
	}
	Ok(table.len())
}
