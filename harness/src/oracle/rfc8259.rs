//! Reference reader for RFC 8259 documents.
//!
//! Written from the RFC text (grammar of section 2-7, string decoding of
//! section 7) and the Unicode standard (table 3-7, well-formed UTF-8). It
//! shares no code with json-syntax and does not call it. One pass over the
//! input produces:
//!
//! * the offset of the first ill-formed UTF-8 sequence,
//! * the *grammar stop*: the length of the longest prefix that can still be
//!   extended to a member of the grammar, with the character found there,
//! * the list of surrogate anomalies (`\u` escapes denoting unpaired high
//!   surrogates / lone low surrogates) met before the stop,
//! * when the text is in the grammar and `build` is set: the abstract tree and
//!   the pre-order list of fragments (value / entry / key) with byte spans and
//!   volumes.
//!
//! JSON is LL(1) without dead states, so "a transition exists" is the same as
//! "the prefix is viable".

#[derive(Clone, Debug, PartialEq, Eq)]
pub enum RVal {
	Null,
	Bool(bool),
	Num(String),
	Str(String),
	Arr(Vec<RVal>),
	Obj(Vec<(String, RVal)>),
}

#[derive(Clone, Copy, Debug, PartialEq, Eq)]
pub enum FragKind {
	Value,
	Entry,
	Key,
}

#[derive(Clone, Copy, Debug, PartialEq, Eq)]
pub struct Frag {
	pub kind: FragKind,
	pub start: usize,
	pub end: usize,
	pub volume: usize,
}

/// A `\uXXXX` escape inside a string literal.
#[derive(Clone, Copy, Debug, PartialEq, Eq)]
pub struct Esc {
	/// Offset of the backslash.
	pub start: usize,
	/// Offset just after the fourth hex digit.
	pub end: usize,
	pub unit: u16,
}

#[derive(Clone, Copy, Debug, PartialEq, Eq)]
pub enum SurEvent {
	/// A high-surrogate escape not immediately followed by a low-surrogate
	/// escape. `next` is the following element when it is itself a `\u`
	/// escape (necessarily not a low surrogate).
	UnpairedHigh { esc: Esc, next: Option<Esc> },
	/// A low-surrogate escape not preceded by a high-surrogate escape.
	LoneLow { esc: Esc },
}

impl SurEvent {
	pub fn esc(&self) -> Esc {
		match self {
			SurEvent::UnpairedHigh { esc, .. } => *esc,
			SurEvent::LoneLow { esc } => *esc,
		}
	}
}

/// Parser options as the reference understands them.
#[derive(Clone, Copy, Debug, PartialEq, Eq)]
pub struct Opts {
	pub truncated: bool,
	pub invalid: bool,
}

impl Opts {
	pub const STRICT: Opts = Opts {
		truncated: false,
		invalid: false,
	};
	pub const ALL: [Opts; 4] = [
		Opts {
			truncated: false,
			invalid: false,
		},
		Opts {
			truncated: true,
			invalid: false,
		},
		Opts {
			truncated: false,
			invalid: true,
		},
		Opts {
			truncated: true,
			invalid: true,
		},
	];
}

/// Automaton states (lexical position inside the document).
#[derive(Clone, Copy, Debug, PartialEq, Eq)]
#[repr(u8)]
pub enum St {
	TopValue,
	ArrFirst,
	ArrValue,
	ObjFirst,
	ObjKey,
	ObjColon,
	ObjValue,
	AfterTop,
	AfterArrItem,
	AfterObjValue,
	T1,
	T2,
	T3,
	F1,
	F2,
	F3,
	F4,
	N1,
	N2,
	N3,
	Minus,
	Zero,
	Int,
	FracFirst,
	Frac,
	ExpSign,
	ExpFirst,
	Exp,
	Str,
	StrEsc,
	U0,
	U1,
	U2,
	U3,
}

pub const N_STATES: usize = 34;
pub const N_CLASSES: usize = 130;

/// Character class used for the transition-coverage statistic: the byte
/// itself for ASCII, 128 for the rest of the BMP, 129 for supplementary
/// planes.
pub fn char_class(c: char) -> usize {
	let u = c as u32;
	if u < 128 {
		u as usize
	} else if u < 0x10000 {
		128
	} else {
		129
	}
}

/// Strict UTF-8 validation per Unicode table 3-7. Returns the offset of the
/// first ill-formed sequence, or `bytes.len()`.
pub fn utf8_valid_up_to(b: &[u8]) -> usize {
	let n = b.len();
	let mut i = 0;
	let cont = |x: u8| (0x80..=0xBF).contains(&x);
	while i < n {
		let b0 = b[i];
		if b0 < 0x80 {
			i += 1;
			continue;
		}
		let (len, lo, hi) = match b0 {
			0xC2..=0xDF => (2, 0x80, 0xBF),
			0xE0 => (3, 0xA0, 0xBF),
			0xE1..=0xEC | 0xEE..=0xEF => (3, 0x80, 0xBF),
			0xED => (3, 0x80, 0x9F),
			0xF0 => (4, 0x90, 0xBF),
			0xF1..=0xF3 => (4, 0x80, 0xBF),
			0xF4 => (4, 0x80, 0x8F),
			_ => return i,
		};
		if i + len > n {
			return i;
		}
		if !(lo..=hi).contains(&b[i + 1]) {
			return i;
		}
		for k in 2..len {
			if !cont(b[i + k]) {
				return i;
			}
		}
		i += len;
	}
	n
}

#[derive(Clone, Copy, PartialEq, Eq)]
enum StrRole {
	Value,
	Key,
}

struct Ctn {
	is_obj: bool,
	frag: usize,
	items: Vec<RVal>,
	entries: Vec<(String, RVal)>,
	pending_key: Option<(String, usize)>,
}

/// Result of one reading.
#[derive(Debug, Default)]
pub struct Reading {
	pub len: usize,
	pub valid_up_to: usize,
	/// Grammar stop inside the well-formed prefix (character without
	/// transition, or end of the *whole* input in a non-accepting state).
	pub stop: Option<(usize, Option<char>)>,
	/// The automaton consumed the whole well-formed prefix and the next thing
	/// is an ill-formed sequence.
	pub invalid_utf8: bool,
	pub sur: Vec<SurEvent>,
	/// A high-surrogate escape was pending when the reading was cut (stop,
	/// ill-formed byte).
	pub pending_at_cut: Option<Esc>,
	pub root: Option<RVal>,
	pub frags: Vec<Frag>,
	/// Maximal nesting depth reached.
	pub max_depth: usize,
	/// Number of characters consumed by the automaton.
	pub chars: usize,
}

impl Reading {
	/// The text is in the RFC 8259 grammar (any `\uXXXX` allowed).
	pub fn grammar_ok(&self) -> bool {
		self.stop.is_none() && !self.invalid_utf8
	}

	/// First surrogate anomaly not tolerated under `o`.
	pub fn first_sur_error(&self, o: Opts) -> Option<SurEvent> {
		self.sur
			.iter()
			.find(|e| match e {
				SurEvent::UnpairedHigh { .. } => !o.truncated,
				SurEvent::LoneLow { .. } => !o.invalid,
			})
			.copied()
	}

	/// Reference verdict: must the document be accepted under `o`?
	pub fn accepts(&self, o: Opts) -> bool {
		self.grammar_ok() && self.first_sur_error(o).is_none()
	}
}

/// Reusable reader (buffers are kept between calls).
pub struct Reader {
	stack: Vec<Ctn>,
	num: String,
	text: String,
	/// Coverage of (state, class) pairs: 1 = seen with a transition, 2 = seen stuck.
	pub cov: Vec<u8>,
	pub track_cov: bool,
}

impl Default for Reader {
	fn default() -> Self {
		Self::new()
	}
}

impl Reader {
	pub fn new() -> Self {
		Reader {
			stack: Vec::new(),
			num: String::new(),
			text: String::new(),
			cov: vec![0; N_STATES * (N_CLASSES + 1)],
			track_cov: false,
		}
	}

	pub fn read_str(&mut self, s: &str, build: bool) -> Reading {
		self.read(s.as_bytes(), build)
	}

	pub fn read(&mut self, input: &[u8], build: bool) -> Reading {
		let valid = utf8_valid_up_to(input);
		// The prefix was validated just above by the reference validator.
		let text = std::str::from_utf8(&input[..valid]).expect("reference validator disagrees with std");
		let mut r = Reading {
			len: input.len(),
			valid_up_to: valid,
			..Default::default()
		};

		self.stack.clear();
		self.num.clear();
		self.text.clear();

		let mut st = St::TopValue;
		let mut tok_start = 0usize; // start offset of the scalar being lexed
		let mut tok_frag = 0usize;
		let mut role = StrRole::Value;
		let mut esc_start = 0usize;
		let mut unit: u32 = 0;
		let mut pending_high: Option<Esc> = None;
		let mut root: Option<RVal> = None;
		let mut depth = 0usize;

		macro_rules! open_frag {
			($kind:expr, $start:expr) => {{
				if build {
					r.frags.push(Frag {
						kind: $kind,
						start: $start,
						end: $start,
						volume: 0,
					});
					r.frags.len() - 1
				} else {
					0
				}
			}};
		}
		macro_rules! close_frag {
			($i:expr, $end:expr) => {{
				if build {
					let n = r.frags.len();
					let f = &mut r.frags[$i];
					f.end = $end;
					f.volume = n - $i;
				}
			}};
		}
		// A value has just been completed at offset `end` (exclusive).
		macro_rules! finish_value {
			($v:expr, $end:expr) => {{
				let v: Option<RVal> = $v;
				match self.stack.last_mut() {
					None => {
						root = v;
						st = St::AfterTop;
					}
					Some(c) if !c.is_obj => {
						if let Some(v) = v {
							c.items.push(v);
						}
						st = St::AfterArrItem;
					}
					Some(c) => {
						if build {
							let (k, e) = c.pending_key.take().expect("entry without key");
							c.entries.push((k, v.expect("value in build mode")));
							close_frag!(e, $end);
						}
						st = St::AfterObjValue;
					}
				}
			}};
		}

		let mut chars = 0usize;
		let mut it = text.char_indices();
		let mut cur = it.next();
		let mut stuck: Option<(usize, Option<char>)> = None;

		'outer: loop {
			let (off, c) = match cur {
				Some(x) => x,
				None => break,
			};
			let st_before = st;
			// `ok` = a transition exists; `redo` = the character ended a number
			// and must be dispatched again in the after-value state.
			let mut ok = true;
			let mut redo = false;
			let ws = matches!(c, ' ' | '\t' | '\n' | '\r');
			match st {
				St::TopValue | St::ArrFirst | St::ArrValue | St::ObjValue => {
					if ws {
					} else {
						match c {
							'n' => {
								tok_start = off;
								tok_frag = open_frag!(FragKind::Value, off);
								st = St::N1
							}
							't' => {
								tok_start = off;
								tok_frag = open_frag!(FragKind::Value, off);
								st = St::T1
							}
							'f' => {
								tok_start = off;
								tok_frag = open_frag!(FragKind::Value, off);
								st = St::F1
							}
							'-' => {
								tok_start = off;
								tok_frag = open_frag!(FragKind::Value, off);
								self.num.clear();
								self.num.push(c);
								st = St::Minus
							}
							'0' => {
								tok_start = off;
								tok_frag = open_frag!(FragKind::Value, off);
								self.num.clear();
								self.num.push(c);
								st = St::Zero
							}
							'1'..='9' => {
								tok_start = off;
								tok_frag = open_frag!(FragKind::Value, off);
								self.num.clear();
								self.num.push(c);
								st = St::Int
							}
							'"' => {
								tok_start = off;
								tok_frag = open_frag!(FragKind::Value, off);
								self.text.clear();
								role = StrRole::Value;
								pending_high = None;
								st = St::Str
							}
							'[' => {
								let f = open_frag!(FragKind::Value, off);
								self.stack.push(Ctn {
									is_obj: false,
									frag: f,
									items: Vec::new(),
									entries: Vec::new(),
									pending_key: None,
								});
								depth += 1;
								if depth > r.max_depth {
									r.max_depth = depth
								}
								st = St::ArrFirst
							}
							'{' => {
								let f = open_frag!(FragKind::Value, off);
								self.stack.push(Ctn {
									is_obj: true,
									frag: f,
									items: Vec::new(),
									entries: Vec::new(),
									pending_key: None,
								});
								depth += 1;
								if depth > r.max_depth {
									r.max_depth = depth
								}
								st = St::ObjFirst
							}
							']' if st == St::ArrFirst => {
								let ctn = self.stack.pop().unwrap();
								depth -= 1;
								close_frag!(ctn.frag, off + 1);
								finish_value!(if build { Some(RVal::Arr(ctn.items)) } else { None }, off + 1);
							}
							_ => ok = false,
						}
					}
				}
				St::ObjFirst | St::ObjKey => {
					if ws {
					} else if c == '"' {
						if build {
							let e = open_frag!(FragKind::Entry, off);
							self.stack.last_mut().unwrap().pending_key = Some((String::new(), e));
						}
						tok_start = off;
						tok_frag = open_frag!(FragKind::Key, off);
						self.text.clear();
						role = StrRole::Key;
						pending_high = None;
						st = St::Str;
					} else if c == '}' && st == St::ObjFirst {
						let ctn = self.stack.pop().unwrap();
						depth -= 1;
						close_frag!(ctn.frag, off + 1);
						finish_value!(if build { Some(RVal::Obj(ctn.entries)) } else { None }, off + 1);
					} else {
						ok = false
					}
				}
				St::ObjColon => {
					if ws {
					} else if c == ':' {
						st = St::ObjValue
					} else {
						ok = false
					}
				}
				St::AfterTop => {
					if !ws {
						ok = false
					}
				}
				St::AfterArrItem => {
					if ws {
					} else if c == ',' {
						st = St::ArrValue
					} else if c == ']' {
						let ctn = self.stack.pop().unwrap();
						depth -= 1;
						close_frag!(ctn.frag, off + 1);
						finish_value!(if build { Some(RVal::Arr(ctn.items)) } else { None }, off + 1);
					} else {
						ok = false
					}
				}
				St::AfterObjValue => {
					if ws {
					} else if c == ',' {
						st = St::ObjKey
					} else if c == '}' {
						let ctn = self.stack.pop().unwrap();
						depth -= 1;
						close_frag!(ctn.frag, off + 1);
						finish_value!(if build { Some(RVal::Obj(ctn.entries)) } else { None }, off + 1);
					} else {
						ok = false
					}
				}
				St::T1 => {
					if c == 'r' {
						st = St::T2
					} else {
						ok = false
					}
				}
				St::T2 => {
					if c == 'u' {
						st = St::T3
					} else {
						ok = false
					}
				}
				St::T3 => {
					if c == 'e' {
						close_frag!(tok_frag, off + 1);
						finish_value!(if build { Some(RVal::Bool(true)) } else { None }, off + 1);
					} else {
						ok = false
					}
				}
				St::F1 => {
					if c == 'a' {
						st = St::F2
					} else {
						ok = false
					}
				}
				St::F2 => {
					if c == 'l' {
						st = St::F3
					} else {
						ok = false
					}
				}
				St::F3 => {
					if c == 's' {
						st = St::F4
					} else {
						ok = false
					}
				}
				St::F4 => {
					if c == 'e' {
						close_frag!(tok_frag, off + 1);
						finish_value!(if build { Some(RVal::Bool(false)) } else { None }, off + 1);
					} else {
						ok = false
					}
				}
				St::N1 => {
					if c == 'u' {
						st = St::N2
					} else {
						ok = false
					}
				}
				St::N2 => {
					if c == 'l' {
						st = St::N3
					} else {
						ok = false
					}
				}
				St::N3 => {
					if c == 'l' {
						close_frag!(tok_frag, off + 1);
						finish_value!(if build { Some(RVal::Null) } else { None }, off + 1);
					} else {
						ok = false
					}
				}
				St::Minus => match c {
					'0' => {
						self.num.push(c);
						st = St::Zero
					}
					'1'..='9' => {
						self.num.push(c);
						st = St::Int
					}
					_ => ok = false,
				},
				St::Zero => match c {
					'.' => {
						self.num.push(c);
						st = St::FracFirst
					}
					'e' | 'E' => {
						self.num.push(c);
						st = St::ExpSign
					}
					_ => redo = true,
				},
				St::Int => match c {
					'0'..='9' => self.num.push(c),
					'.' => {
						self.num.push(c);
						st = St::FracFirst
					}
					'e' | 'E' => {
						self.num.push(c);
						st = St::ExpSign
					}
					_ => redo = true,
				},
				St::FracFirst => match c {
					'0'..='9' => {
						self.num.push(c);
						st = St::Frac
					}
					_ => ok = false,
				},
				St::Frac => match c {
					'0'..='9' => self.num.push(c),
					'e' | 'E' => {
						self.num.push(c);
						st = St::ExpSign
					}
					_ => redo = true,
				},
				St::ExpSign => match c {
					'+' | '-' => {
						self.num.push(c);
						st = St::ExpFirst
					}
					'0'..='9' => {
						self.num.push(c);
						st = St::Exp
					}
					_ => ok = false,
				},
				St::ExpFirst => match c {
					'0'..='9' => {
						self.num.push(c);
						st = St::Exp
					}
					_ => ok = false,
				},
				St::Exp => match c {
					'0'..='9' => self.num.push(c),
					_ => redo = true,
				},
				St::Str => match c {
					'"' => {
						if let Some(h) = pending_high.take() {
							r.sur.push(SurEvent::UnpairedHigh { esc: h, next: None });
							self.text.push('\u{fffd}');
						}
						close_frag!(tok_frag, off + 1);
						match role {
							StrRole::Value => {
								finish_value!(
									if build {
										Some(RVal::Str(std::mem::take(&mut self.text)))
									} else {
										None
									},
									off + 1
								);
							}
							StrRole::Key => {
								if build {
									let c = self.stack.last_mut().unwrap();
									c.pending_key.as_mut().unwrap().0 = std::mem::take(&mut self.text);
								}
								st = St::ObjColon;
							}
						}
					}
					'\\' => {
						esc_start = off;
						st = St::StrEsc
					}
					c if (c as u32) < 0x20 => ok = false,
					c => {
						if let Some(h) = pending_high.take() {
							r.sur.push(SurEvent::UnpairedHigh { esc: h, next: None });
							self.text.push('\u{fffd}');
						}
						self.text.push(c)
					}
				},
				St::StrEsc => {
					let decoded = match c {
						'"' => Some('"'),
						'\\' => Some('\\'),
						'/' => Some('/'),
						'b' => Some('\u{8}'),
						'f' => Some('\u{c}'),
						'n' => Some('\n'),
						'r' => Some('\r'),
						't' => Some('\t'),
						_ => None,
					};
					match decoded {
						Some(d) => {
							if let Some(h) = pending_high.take() {
								r.sur.push(SurEvent::UnpairedHigh { esc: h, next: None });
								self.text.push('\u{fffd}');
							}
							self.text.push(d);
							st = St::Str
						}
						None if c == 'u' => {
							unit = 0;
							st = St::U0
						}
						None => ok = false,
					}
				}
				St::U0 | St::U1 | St::U2 | St::U3 => {
					let d = match c {
						'0'..='9' => Some(c as u32 - '0' as u32),
						'a'..='f' => Some(c as u32 - 'a' as u32 + 10),
						'A'..='F' => Some(c as u32 - 'A' as u32 + 10),
						_ => None,
					};
					match d {
						None => ok = false,
						Some(d) => {
							unit = unit << 4 | d;
							st = match st {
								St::U0 => St::U1,
								St::U1 => St::U2,
								St::U2 => St::U3,
								_ => {
									// the escape is complete
									let e = Esc {
										start: esc_start,
										end: off + 1,
										unit: unit as u16,
									};
									let is_high = (0xD800..=0xDBFF).contains(&unit);
									let is_low = (0xDC00..=0xDFFF).contains(&unit);
									match pending_high.take() {
										Some(h) if is_low => {
											let s = 0x10000 + (((h.unit as u32) - 0xD800) << 10) + (unit - 0xDC00);
											self.text.push(char::from_u32(s).expect("pair formula"));
										}
										Some(h) => {
											r.sur.push(SurEvent::UnpairedHigh { esc: h, next: Some(e) });
											self.text.push('\u{fffd}');
											if is_high {
												pending_high = Some(e)
											} else {
												self.text.push(char::from_u32(unit).expect("non-surrogate unit"));
											}
										}
										None => {
											if is_high {
												pending_high = Some(e)
											} else if is_low {
												r.sur.push(SurEvent::LoneLow { esc: e });
												self.text.push('\u{fffd}');
											} else {
												self.text.push(char::from_u32(unit).expect("non-surrogate unit"));
											}
										}
									}
									St::Str
								}
							}
						}
					}
				}
			}

			if redo {
				// end of a number: close it, then dispatch `c` again.
				if self.track_cov {
					self.cov[st_before as usize * (N_CLASSES + 1) + char_class(c)] |= 1;
				}
				close_frag!(tok_frag, off);
				let _ = tok_start;
				finish_value!(
					if build {
						Some(RVal::Num(std::mem::take(&mut self.num)))
					} else {
						None
					},
					off
				);
				continue 'outer;
			}

			if self.track_cov {
				self.cov[st_before as usize * (N_CLASSES + 1) + char_class(c)] |= if ok { 1 } else { 2 };
			}

			if !ok {
				stuck = Some((off, Some(c)));
				break;
			}
			chars += 1;
			cur = it.next();
		}

		r.chars = chars;

		if stuck.is_none() {
			// the well-formed prefix is exhausted
			if valid < input.len() {
				r.invalid_utf8 = true;
			} else {
				// true end of input: numbers may end here
				if matches!(st, St::Zero | St::Int | St::Frac | St::Exp) {
					if self.track_cov {
						self.cov[st as usize * (N_CLASSES + 1) + N_CLASSES] |= 1;
					}
					close_frag!(tok_frag, valid);
					finish_value!(
						if build {
							Some(RVal::Num(std::mem::take(&mut self.num)))
						} else {
							None
						},
						valid
					);
				}
				if st != St::AfterTop {
					if self.track_cov {
						self.cov[st as usize * (N_CLASSES + 1) + N_CLASSES] |= 2;
					}
					stuck = Some((valid, None));
				} else if self.track_cov {
					self.cov[st as usize * (N_CLASSES + 1) + N_CLASSES] |= 1;
				}
			}
		}

		r.stop = stuck;
		if r.stop.is_some() || r.invalid_utf8 {
			r.pending_at_cut = if matches!(st, St::Str | St::StrEsc | St::U0 | St::U1 | St::U2 | St::U3) {
				pending_high
			} else {
				None
			};
			r.frags.clear();
			// dismantle partial containers iteratively (they hold only complete children)
			self.dismantle();
		} else {
			r.root = root;
		}
		r
	}

	fn dismantle(&mut self) {
		while let Some(c) = self.stack.pop() {
			for v in c.items {
				drop_iter(v)
			}
			for (_, v) in c.entries {
				drop_iter(v)
			}
		}
	}

	/// Number of (state, class) pairs seen so far: (with transition, stuck).
	pub fn coverage(&self) -> (usize, usize) {
		let a = self.cov.iter().filter(|x| **x & 1 != 0).count();
		let b = self.cov.iter().filter(|x| **x & 2 != 0).count();
		(a, b)
	}

	pub fn merge_cov(&mut self, other: &[u8]) {
		for (a, b) in self.cov.iter_mut().zip(other) {
			*a |= *b
		}
	}
}

/// Drops a reference value without recursion.
pub fn drop_iter(v: RVal) {
	let mut stack = vec![v];
	while let Some(v) = stack.pop() {
		match v {
			RVal::Arr(a) => stack.extend(a),
			RVal::Obj(o) => stack.extend(o.into_iter().map(|(_, v)| v)),
			_ => (),
		}
	}
}

impl RVal {
	pub fn kind_name(&self) -> &'static str {
		match self {
			RVal::Null => "null",
			RVal::Bool(_) => "boolean",
			RVal::Num(_) => "number",
			RVal::Str(_) => "string",
			RVal::Arr(_) => "array",
			RVal::Obj(_) => "object",
		}
	}

	/// Number of fragments in the pre-order traversal.
	pub fn fragments(&self) -> usize {
		match self {
			RVal::Arr(a) => 1 + a.iter().map(|v| v.fragments()).sum::<usize>(),
			RVal::Obj(o) => 1 + o.iter().map(|(_, v)| 2 + v.fragments()).sum::<usize>(),
			_ => 1,
		}
	}

	pub fn depth(&self) -> usize {
		match self {
			RVal::Arr(a) => 1 + a.iter().map(|v| v.depth()).max().unwrap_or(0),
			RVal::Obj(o) => 1 + o.iter().map(|(_, v)| v.depth()).max().unwrap_or(0),
			_ => 0,
		}
	}
}

/// Self-test of the validator against std on all byte strings of length <= 3
/// (and a structured set of 4-byte strings). Returns the number of strings compared.
pub fn selftest_utf8() -> Result<usize, String> {
	let mut n = 0usize;
	let mut buf = [0u8; 4];
	let check = |b: &[u8]| -> Result<(), String> {
		let mine = utf8_valid_up_to(b);
		let theirs = match std::str::from_utf8(b) {
			Ok(_) => b.len(),
			Err(e) => e.valid_up_to(),
		};
		if mine != theirs {
			Err(format!("utf8 validator: {:02x?} mine={} std={}", b, mine, theirs))
		} else {
			Ok(())
		}
	};
	check(&[])?;
	for a in 0..=255u8 {
		buf[0] = a;
		check(&buf[..1])?;
		n += 1;
		for b in 0..=255u8 {
			buf[1] = b;
			check(&buf[..2])?;
			n += 1;
			if a >= 0x80 || b >= 0x80 {
				for c in 0..=255u8 {
					buf[2] = c;
					check(&buf[..3])?;
					n += 1;
					if a >= 0xF0 {
						for d in [0x00u8, 0x7F, 0x80, 0x8F, 0x90, 0xBF, 0xC0, 0xFF] {
							buf[3] = d;
							check(&buf[..4])?;
							n += 1;
						}
					}
				}
			}
		}
	}
	Ok(n)
}
