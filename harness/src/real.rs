//! Wrappers around the calls into json-syntax: every entry point of the
//! parser, with panics captured and errors normalised into plain data.

use crate::monitor::guard;
use crate::oracle::rfc8259::Opts;
use decoded_char::DecodedChar;
use json_syntax::parse::{Error, Options};
use json_syntax::{CodeMap, Parse, Value};
use std::convert::Infallible;

#[derive(Clone, Debug, PartialEq, Eq)]
pub enum PErr {
	Unexpected(usize, Option<char>),
	InvalidUtf8(usize),
	MissingLow { start: usize, end: usize, hi: u16 },
	InvalidLow { start: usize, end: usize, hi: u16, cp: u32 },
	InvalidCp { start: usize, end: usize, cp: u32 },
	Stream(usize),
	/// `Error::position()` / `Error::span()` disagree with the variant payload.
	Incoherent(String),
	Panic(String),
}

pub type Map = Vec<(usize, usize, usize)>;
pub type PRes = Result<(Value, Map), PErr>;

pub fn options(o: Opts) -> Options {
	let mut x = Options::strict();
	x.accept_truncated_surrogate_pair = o.truncated;
	x.accept_invalid_codepoints = o.invalid;
	x
}

pub fn map_of(cm: &CodeMap) -> Map {
	cm.as_slice()
		.iter()
		.map(|e| (e.span.start(), e.span.end(), e.volume))
		.collect()
}

fn norm_err<E>(e: Error<E>) -> PErr {
	norm_err_len(e, &|c| c.len_utf8())
}

/// `len_of` gives the length a character had in the source (the unit of positions and spans).
fn norm_err_len<E>(e: Error<E>, len_of: &dyn Fn(char) -> usize) -> PErr {
	let pos = e.position();
	let span = e.span();
	let (r, p, s, t) = match e {
		Error::Stream(p, _) => (PErr::Stream(p), p, p, p),
		Error::Unexpected(p, c) => (PErr::Unexpected(p, c), p, p, p),
		Error::InvalidUtf8(p) => (PErr::InvalidUtf8(p), p, p, p),
		Error::MissingLowSurrogate(sp, hi) => (
			PErr::MissingLow {
				start: sp.start(),
				end: sp.end(),
				hi,
			},
			sp.start(),
			sp.start(),
			sp.end(),
		),
		Error::InvalidLowSurrogate(sp, hi, cp) => (
			PErr::InvalidLow {
				start: sp.start(),
				end: sp.end(),
				hi,
				cp,
			},
			sp.start(),
			sp.start(),
			sp.end(),
		),
		Error::InvalidUnicodeCodePoint(sp, cp) => (
			PErr::InvalidCp {
				start: sp.start(),
				end: sp.end(),
				cp,
			},
			sp.start(),
			sp.start(),
			sp.end(),
		),
	};
	// the span of an unexpected character may be empty or cover exactly that character, in the units of the source
	let unexpected_char_span = matches!(r, PErr::Unexpected(_, Some(c)) if span.start() == s && span.end() == s + len_of(c));
	if pos != p || span.start() != s || (span.end() != t && !unexpected_char_span) {
		return PErr::Incoherent(format!(
			"{:?}: position()={} span()={}..{}",
			r,
			pos,
			span.start(),
			span.end()
		));
	}
	r
}

fn norm<E>(r: Result<(Value, CodeMap), Error<E>>) -> PRes {
	match r {
		Ok((v, cm)) => Ok((v, map_of(&cm))),
		Err(e) => Err(norm_err(e)),
	}
}

fn wrap<E>(f: impl FnOnce() -> Result<(Value, CodeMap), Error<E>>) -> PRes {
	match guard(f) {
		Ok(r) => norm(r),
		Err(p) => Err(PErr::Panic(p)),
	}
}

pub fn parse_slice_with(b: &[u8], o: Opts) -> PRes {
	wrap(|| Value::parse_slice_with(b, options(o)))
}

pub fn parse_slice(b: &[u8]) -> PRes {
	wrap(|| Value::parse_slice(b))
}

pub fn parse_str(s: &str) -> PRes {
	wrap(|| Value::parse_str(s))
}

pub fn parse_str_with(s: &str, o: Opts) -> PRes {
	wrap(|| Value::parse_str_with(s, options(o)))
}

/// Names of the entry points applicable to text input.
pub const STR_ENTRIES: [&str; 13] = [
	"parse_str",
	"parse_str_with",
	"parse_slice",
	"parse_slice_with",
	"parse_utf8",
	"parse_utf8_with",
	"parse_infallible_utf8",
	"parse_utf8_infallible_with",
	"parse",
	"parse_with",
	"parse_infallible",
	"parse_infallible_with",
	"FromStr",
];

/// Does entry point `i` take an `Options` argument?
pub fn entry_takes_options(i: usize) -> bool {
	matches!(i, 1 | 3 | 5 | 7 | 9 | 11)
}

/// Calls entry point `i` on text `s`. Entry points without an options
/// argument ignore `o` (callers pass strict). `FromStr` yields no code map.
pub fn parse_entry(i: usize, s: &str, o: Opts) -> PRes {
	let op = options(o);
	match i {
		0 => wrap(|| Value::parse_str(s)),
		1 => wrap(|| Value::parse_str_with(s, op)),
		2 => wrap(|| Value::parse_slice(s.as_bytes())),
		3 => wrap(|| Value::parse_slice_with(s.as_bytes(), op)),
		4 => wrap(|| Value::parse_utf8(s.chars().map(Ok::<char, Infallible>))),
		5 => wrap(|| Value::parse_utf8_with(s.chars().map(Ok::<char, Infallible>), op)),
		6 => wrap(|| Value::parse_infallible_utf8(s.chars())),
		7 => wrap(|| Value::parse_utf8_infallible_with(s.chars(), op)),
		8 => wrap(|| Value::parse(s.chars().map(|c| Ok::<DecodedChar, Infallible>(DecodedChar::from_utf8(c))))),
		9 => wrap(|| {
			Value::parse_with(
				s.chars().map(|c| Ok::<DecodedChar, Infallible>(DecodedChar::from_utf8(c))),
				op,
			)
		}),
		10 => wrap(|| Value::parse_infallible(s.chars().map(DecodedChar::from_utf8))),
		11 => wrap(|| Value::parse_infallible_with(s.chars().map(DecodedChar::from_utf8), op)),
		_ => match guard(|| s.parse::<Value>()) {
			Ok(Ok(v)) => Ok((v, Vec::new())),
			Ok(Err(e)) => Err(norm_err(e)),
			Err(p) => Err(PErr::Panic(p)),
		},
	}
}

/// Parses through `parse_utf8_with` over a character source that fails with a
/// stream error after `fail_at` characters.
pub fn parse_with_stream_error(s: &str, fail_at: usize, o: Opts) -> PRes {
	let mut n = 0usize;
	let mut chars = s.chars();
	let it = std::iter::from_fn(move || {
		if n == fail_at {
			n += 1;
			return Some(Err(()));
		}
		n += 1;
		chars.next().map(Ok)
	});
	wrap(|| Value::parse_utf8_with(it, options(o)))
}

/// Parses a scalar document through the typed `Parse` impls (`bool`, `()`,
/// `NumberBuf`, `String`) chosen by `kind` ('t'/'f', 'n', '0', '"').
/// These impls neither skip surrounding whitespace nor check what follows, so
/// callers only use them on texts that are exactly one scalar token.
pub fn parse_typed(kind: char, s: &str, slice: bool) -> Result<(Value, Map), PErr> {
	use json_syntax::NumberBuf;
	fn fin<T, E>(r: Result<Result<(T, CodeMap), Error<E>>, String>, f: impl FnOnce(T) -> Value) -> Result<(Value, Map), PErr> {
		match r {
			Ok(Ok((v, cm))) => Ok((f(v), map_of(&cm))),
			Ok(Err(e)) => Err(norm_err(e)),
			Err(p) => Err(PErr::Panic(p)),
		}
	}
	match kind {
		't' | 'f' => fin(guard(|| if slice { bool::parse_slice(s.as_bytes()) } else { bool::parse_str(s) }), Value::Boolean),
		'n' => fin(guard(|| if slice { <()>::parse_slice(s.as_bytes()) } else { <()>::parse_str(s) }), |()| Value::Null),
		'"' => fin(guard(|| if slice { json_syntax::String::parse_slice(s.as_bytes()) } else { json_syntax::String::parse_str(s) }), Value::String),
		_ => fin(guard(|| if slice { NumberBuf::parse_slice(s.as_bytes()) } else { NumberBuf::parse_str(s) }), Value::Number),
	}
}

/// Parses `s` as if it had been decoded from a UTF-16 source: every character
/// carries its length in UTF-16 code units (`DecodedChar::from_utf16`), so all
/// offsets are reported in that unit.
pub fn parse_utf16_lengths(s: &str, o: Opts, fallible: bool) -> PRes {
	let op = options(o);
	if fallible {
		wrap(|| Value::parse_with(s.chars().map(|c| Ok::<DecodedChar, Infallible>(DecodedChar::from_utf16(c))), op))
	} else {
		wrap(|| Value::parse_infallible_with(s.chars().map(DecodedChar::from_utf16), op))
	}
}

/// How a character source declares the encoded length of its characters.
#[derive(Clone, Copy, Debug, PartialEq, Eq)]
pub enum Widths {
	/// UTF-16 code units (`DecodedChar::from_utf16`).
	Utf16Units,
	/// UTF-16 bytes (2 or 4).
	Utf16Bytes,
	/// UTF-32 bytes (always 4).
	Utf32,
	/// A source in which the JSON text was itself escaped: quotes, backslashes, line breaks and tabs take 2 bytes.
	Escaped,
}

pub const ALL_WIDTHS: [Widths; 4] = [Widths::Utf16Units, Widths::Utf16Bytes, Widths::Utf32, Widths::Escaped];

impl Widths {
	pub fn of(self, c: char) -> usize {
		match self {
			Widths::Utf16Units => c.len_utf16(),
			Widths::Utf16Bytes => 2 * c.len_utf16(),
			Widths::Utf32 => 4,
			Widths::Escaped => match c {
				'"' | '\\' | '\n' | '\t' | '\r' => 2,
				c => c.len_utf8(),
			},
		}
	}
}

/// Parses `s` through `parse_with` / `parse_infallible_with` over a source
/// whose characters carry the lengths given by `w`.
pub fn parse_widths(s: &str, o: Opts, w: Widths, fallible: bool) -> PRes {
	let op = options(o);
	let r = if fallible {
		guard(|| Value::parse_with(s.chars().map(|c| Ok::<DecodedChar, Infallible>(DecodedChar::new(c, w.of(c)))), op).map_err(|e| norm_err_len(e, &|c| w.of(c))))
	} else {
		guard(|| Value::parse_infallible_with(s.chars().map(|c| DecodedChar::new(c, w.of(c))), op).map_err(|e| norm_err_len(e, &|c| w.of(c))))
	};
	match r {
		Ok(Ok((v, cm))) => Ok((v, map_of(&cm))),
		Ok(Err(e)) => Err(e),
		Err(p) => Err(PErr::Panic(p)),
	}
}

/// The iterator entry points fed by sources whose `size_hint` is `(0, None)`
/// (`iter::from_fn`), as a lazy decoder would be.
pub fn parse_unsized_source(which: usize, s: &str, o: Opts) -> PRes {
	let op = options(o);
	let mut it = s.chars();
	match which % 4 {
		0 => wrap(|| Value::parse_utf8_with(std::iter::from_fn(move || it.next().map(Ok::<char, Infallible>)), op)),
		1 => wrap(|| Value::parse_utf8_infallible_with(std::iter::from_fn(move || it.next()), op)),
		2 => wrap(|| Value::parse_with(std::iter::from_fn(move || it.next().map(|c| Ok::<DecodedChar, Infallible>(DecodedChar::from_utf8(c)))), op)),
		_ => wrap(|| Value::parse_infallible_with(std::iter::from_fn(move || it.next().map(DecodedChar::from_utf8)), op)),
	}
}
