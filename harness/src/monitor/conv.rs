//! Conversions between json-syntax values and the reference tree.

use crate::oracle::rfc8259::RVal;
use json_syntax::{object::Entry, Object, Value};

/// Reads a json-syntax value into the reference representation through the
/// public accessors only (`as_str`, `as_number().as_str()`, `Object::iter`).
pub fn to_rval(v: &Value) -> RVal {
	match v {
		Value::Null => RVal::Null,
		Value::Boolean(b) => RVal::Bool(*b),
		Value::Number(_) => RVal::Num(v.as_number().unwrap().as_str().to_string()),
		Value::String(_) => RVal::Str(v.as_str().unwrap().to_string()),
		Value::Array(a) => RVal::Arr(a.iter().map(to_rval).collect()),
		Value::Object(o) => RVal::Obj(
			o.iter()
				.map(|e| (e.key.as_str().to_string(), to_rval(&e.value)))
				.collect(),
		),
	}
}

/// Builds a json-syntax value from a reference tree through the public
/// constructors (`Object::from_vec` keeps duplicates).
pub fn from_rval(v: &RVal) -> Value {
	match v {
		RVal::Null => Value::Null,
		RVal::Bool(b) => Value::Boolean(*b),
		RVal::Num(n) => Value::Number(n.parse().expect("generator produced an invalid number")),
		RVal::Str(s) => Value::String(s.as_str().into()),
		RVal::Arr(a) => Value::Array(a.iter().map(from_rval).collect()),
		RVal::Obj(o) => Value::Object(Object::from_vec(
			o.iter()
				.map(|(k, v)| Entry::new(k.as_str().into(), from_rval(v)))
				.collect(),
		)),
	}
}

/// Same as `from_rval` but objects are built by successive `push` calls.
pub fn from_rval_push(v: &RVal) -> Value {
	match v {
		RVal::Arr(a) => Value::Array(a.iter().map(from_rval_push).collect()),
		RVal::Obj(o) => {
			let mut obj = Object::new();
			for (k, v) in o {
				obj.push(k.as_str().into(), from_rval_push(v));
			}
			Value::Object(obj)
		}
		other => from_rval(other),
	}
}

/// Dismantles a (possibly very deep) value without recursion.
pub fn drop_value_iter(v: Value) {
	let mut stack = vec![v];
	while let Some(v) = stack.pop() {
		match v {
			Value::Array(a) => stack.extend(a),
			Value::Object(o) => stack.extend(o.into_iter().map(|e| e.value)),
			_ => (),
		}
	}
}

/// Same content as `from_rval`, but every object is filled from the back with the front mutators
/// (`push_front` / `insert_front`), every string and key lives on the heap whatever its length
/// (built from a `std::string::String` with spare capacity, or cut back from a longer text) and
/// arrays carry spare capacity: the value is equal to `from_rval(v)`, only its storage differs.
pub fn from_rval_storage(v: &RVal) -> Value {
	/// `s` in a std string that owns more than it needs, or cut back from a longer text
	fn roomy(s: &str, cut: bool) -> std::string::String {
		let mut t = std::string::String::with_capacity(s.len() + 48);
		t.push_str(s);
		if cut {
			t.push_str("########################################");
		}
		t
	}
	match v {
		RVal::Str(s) => {
			let cut = s.len() % 2 == 0;
			let mut t = json_syntax::String::from(roomy(s, cut));
			t.truncate(s.len());
			Value::String(t)
		}
		RVal::Arr(a) => {
			let mut items = Vec::with_capacity(a.len() + 9);
			items.extend(a.iter().map(from_rval_storage));
			Value::Array(items)
		}
		RVal::Obj(o) => {
			let mut obj = Object::new();
			for (i, (k, v)) in o.iter().enumerate().rev() {
				let mut key = json_syntax::object::Key::from(roomy(k, i % 2 == 1));
				key.truncate(k.len());
				obj.push_front(key, from_rval_storage(v));
			}
			Value::Object(obj)
		}
		other => from_rval(other),
	}
}
