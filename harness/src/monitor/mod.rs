//! Shared monitor infrastructure: per-run report (counters, samples, distinct
//! cases, violations), panic capture around library calls, evidence and replay
//! writers, known-findings matching, small thread pool.

use serde_json::{json, Value as J};
use std::collections::{BTreeMap, HashSet};
use std::panic::{catch_unwind, AssertUnwindSafe};
use std::path::{Path, PathBuf};
use std::sync::Mutex;
use std::time::Instant;

pub mod conv;

#[derive(Clone, Copy, PartialEq, Eq, Debug)]
pub enum Tier {
	Quick,
	Thorough,
}

impl Tier {
	pub fn name(self) -> &'static str {
		match self {
			Tier::Quick => "quick",
			Tier::Thorough => "thorough",
		}
	}

	/// Picks the quick or thorough value of a budget.
	pub fn pick<T>(self, quick: T, thorough: T) -> T {
		match self {
			Tier::Quick => quick,
			Tier::Thorough => thorough,
		}
	}
}

#[derive(Clone, Debug)]
pub struct Violation {
	/// Stable signature used for known-findings matching and de-duplication.
	pub signature: String,
	/// Human-readable description (what was expected, what was observed).
	pub what: String,
	/// Replayable case: `{"sub": <sub-check>, ...}`.
	pub case: J,
}

#[derive(Clone)]
pub struct Config {
	pub tier: Tier,
	pub seed: u64,
	pub san: bool,
	pub shard: (usize, usize),
	pub threads: usize,
	pub verif_dir: PathBuf,
	pub repo_dir: PathBuf,
	pub scale: f64,
	/// Divisor applied to the budgets in sanitizer passes (Miri ~ 4000, ASan ~ 20).
	pub san_div: f64,
}

impl Config {
	pub fn budget(&self, quick: u64, thorough: u64) -> u64 {
		let b = self.tier.pick(quick, thorough) as f64 * self.scale;
		if self.san {
			// sanitizer passes get the reduced workloads
			((b / self.san_div) as u64).max(20)
		} else {
			(b as u64).max(1)
		}
	}
}

const MAX_DISTINCT: usize = 4_000_000;
const MAX_VIOLATIONS: usize = 40;
const MAX_SAMPLES: usize = 12;

/// What one run (or one shard of it) observed.
pub struct Report {
	pub evaluations: u64,
	distinct: HashSet<u64>,
	pub distinct_extra: u64,
	pub distinct_capped: bool,
	pub counters: BTreeMap<String, u64>,
	pub maxima: BTreeMap<String, u64>,
	pub samples: Vec<J>,
	pub notes: Vec<String>,
	pub violations: Vec<Violation>,
	pub violation_count: u64,
	sigs: HashSet<String>,
	/// Harness-side failures (self-test, oracle panic): make the run inconclusive.
	pub inconclusive: Vec<String>,
}

impl Default for Report {
	fn default() -> Self {
		Self::new()
	}
}

impl Report {
	pub fn new() -> Self {
		Report {
			evaluations: 0,
			distinct: HashSet::new(),
			distinct_extra: 0,
			distinct_capped: false,
			counters: BTreeMap::new(),
			maxima: BTreeMap::new(),
			samples: Vec::new(),
			notes: Vec::new(),
			violations: Vec::new(),
			violation_count: 0,
			sigs: HashSet::new(),
			inconclusive: Vec::new(),
		}
	}

	pub fn count(&mut self, key: &str, n: u64) {
		*self.counters.entry(key.to_string()).or_insert(0) += n;
	}

	pub fn max(&mut self, key: &str, v: u64) {
		let e = self.maxima.entry(key.to_string()).or_insert(0);
		if v > *e {
			*e = v
		}
	}

	/// Registers a non-trivial case by hash (counted once).
	pub fn distinct_hash(&mut self, h: u64) {
		if self.distinct.len() < MAX_DISTINCT {
			self.distinct.insert(h);
		} else {
			self.distinct_capped = true;
		}
	}

	pub fn distinct_bytes(&mut self, b: &[u8]) {
		self.distinct_hash(fnv(b))
	}

	/// Registers `n` cases that are distinct by construction (exhaustive enumerations).
	pub fn distinct_by_construction(&mut self, n: u64) {
		self.distinct_extra += n
	}

	pub fn distinct_count(&self) -> u64 {
		self.distinct.len() as u64 + self.distinct_extra
	}

	pub fn sample(&mut self, s: J) {
		if self.samples.len() < MAX_SAMPLES {
			self.samples.push(s)
		}
	}

	pub fn note(&mut self, s: impl Into<String>) {
		let s = s.into();
		if !self.notes.contains(&s) {
			self.notes.push(s)
		}
	}

	pub fn violation(&mut self, signature: impl Into<String>, what: impl Into<String>, case: J) {
		self.violation_count += 1;
		let signature = signature.into();
		if self.violations.len() < MAX_VIOLATIONS && self.sigs.insert(signature.clone()) {
			self.violations.push(Violation {
				signature,
				what: what.into(),
				case,
			})
		}
	}

	pub fn merge(&mut self, other: Report) {
		self.evaluations += other.evaluations;
		for h in other.distinct {
			self.distinct_hash(h)
		}
		self.distinct_extra += other.distinct_extra;
		self.distinct_capped |= other.distinct_capped;
		for (k, v) in other.counters {
			*self.counters.entry(k).or_insert(0) += v
		}
		for (k, v) in other.maxima {
			self.max(&k, v)
		}
		for s in other.samples {
			self.sample(s)
		}
		for n in other.notes {
			self.note(n)
		}
		self.violation_count += other.violation_count;
		for v in other.violations {
			if self.violations.len() < MAX_VIOLATIONS && self.sigs.insert(v.signature.clone()) {
				self.violations.push(v)
			}
		}
		self.inconclusive.extend(other.inconclusive);
	}
}

pub fn fnv(b: &[u8]) -> u64 {
	let mut h: u64 = 0xcbf29ce484222325;
	for x in b {
		h ^= *x as u64;
		h = h.wrapping_mul(0x100000001b3);
	}
	h
}

pub fn hex(b: &[u8]) -> String {
	let mut s = String::with_capacity(b.len() * 2);
	for x in b {
		s.push_str(&format!("{:02x}", x))
	}
	s
}

pub fn unhex(s: &str) -> Vec<u8> {
	(0..s.len() / 2)
		.map(|i| u8::from_str_radix(&s[2 * i..2 * i + 2], 16).unwrap_or(0))
		.collect()
}

/// Printable rendering of an input for samples / messages.
pub fn show(b: &[u8]) -> String {
	let mut s = String::new();
	for &x in b.iter().take(200) {
		match x {
			b'\\' => s.push_str("\\\\"),
			0x20..=0x7e => s.push(x as char),
			_ => s.push_str(&format!("\\x{:02x}", x)),
		}
	}
	if b.len() > 200 {
		s.push_str(&format!("...({} bytes)", b.len()))
	}
	s
}

thread_local! {
	static LAST_PANIC: std::cell::RefCell<Option<String>> = const { std::cell::RefCell::new(None) };
}

thread_local! {
	/// Panics raised on this thread that no `catch_unwind` of the harness has caught yet.
	static PANIC_DEPTH: std::cell::Cell<u32> = const { std::cell::Cell::new(0) };
}

/// Where the run writes (verif dir), seed, tier name, sanitizer pass: what the panic hook needs to
/// leave a verdict behind when the process is about to abort.
pub static RUN_INFO: std::sync::OnceLock<(std::path::PathBuf, u64, String, bool)> = std::sync::OnceLock::new();

fn in_library(m: &str) -> bool {
	let repo = std::env::var("JSV_REPO_DIR").unwrap_or_else(|_| "/repo".into());
	m.contains(&format!(" at {}/src/", repo.trim_end_matches('/'))) || m.contains("/json-number-")
}

/// Installs a panic hook that records the message/location instead of printing.
/// A second panic on a thread that is still unwinding from the first one (a destructor that panics)
/// aborts the process; the hook is the last code that runs, so it leaves the verdict: VIOLATION when
/// one of the two panics was raised in the library's own source, INCONCLUSIVE otherwise.
pub fn install_panic_hook() {
	std::panic::set_hook(Box::new(|info| {
		let msg = if let Some(s) = info.payload().downcast_ref::<&str>() {
			s.to_string()
		} else if let Some(s) = info.payload().downcast_ref::<String>() {
			s.clone()
		} else {
			"<non-string panic>".to_string()
		};
		let loc = info
			.location()
			.map(|l| format!("{}:{}", l.file(), l.line()))
			.unwrap_or_default();
		let this = format!("{} at {}", msg, loc);
		let depth = PANIC_DEPTH.with(|d| {
			let v = d.get();
			d.set(v + 1);
			v
		});
		if depth >= 1 {
			let first = LAST_PANIC.with(|p| p.borrow().clone()).unwrap_or_default();
			let id = CURRENT_ID.get().cloned().unwrap_or_else(|| "C00".into());
			if in_library(&first) || in_library(&this) {
				let what = format!("the library panicked while the thread was unwinding from another panic (the process aborts): first `{}`, then `{}`", first, this);
				let mut path = std::path::PathBuf::from("(no replay directory)");
				if let Some((dir, seed, tier, san)) = RUN_INFO.get() {
					let rd = dir.join("replays");
					let _ = std::fs::create_dir_all(&rd);
					path = rd.join(format!("{}-{:016x}.json", id, fnv(what.as_bytes())));
					let body = serde_json::json!({"property": id, "seed": seed, "tier": tier, "signature": format!("{}:library-abort", id), "what": what, "case": {"sub": "library-panic", "message": what}});
					let _ = std::fs::write(&path, serde_json::to_string_pretty(&body).unwrap_or_default());
					if !*san {
						let ev = serde_json::json!({"property_id": id, "tier": tier, "seed": seed, "level": "exploration", "coverage": {"evaluations": 0, "distinct_nontrivial": 0, "rule": "the run ended in the panic hook: the library panicked twice on one thread (abort)", "violation_signatures": [format!("{}:library-abort", id)], "notes": [what]}, "assumptions": [], "wall_s": 0.0, "violations": 1});
						let _ = std::fs::create_dir_all(dir.join("evidence"));
						let _ = std::fs::write(dir.join("evidence").join(format!("{}.json", id)), serde_json::to_string_pretty(&ev).unwrap_or_default());
					}
				}
				println!("  violation [{}:library-abort]: {}", id, what);
				println!("VIOLATION property={} replay={}", id, path.display());
				std::process::exit(1);
			} else {
				println!("INCONCLUSIVE property={} the harness panicked twice on one thread: first `{}`, then `{}`", id, first, this);
				std::process::exit(2);
			}
		}
		LAST_PANIC.with(|p| *p.borrow_mut() = Some(this));
	}));
}

/// Runs a call into the library under `catch_unwind`. `Err` carries the panic message.
pub fn guard<T>(f: impl FnOnce() -> T) -> Result<T, String> {
	match catch_unwind(AssertUnwindSafe(f)) {
		Ok(v) => Ok(v),
		Err(_) => {
			PANIC_DEPTH.with(|d| d.set(0));
			Err(LAST_PANIC
				.with(|p| p.borrow_mut().take())
				.unwrap_or_else(|| "panic".to_string()))
		}
	}
}

/// Runs `n` shards on `threads` worker threads; each gets its shard index and
/// returns a report; reports are merged in shard order (deterministic).
/// The property id of the running check (set once by main).
pub static CURRENT_ID: std::sync::OnceLock<String> = std::sync::OnceLock::new();

pub fn parallel<F>(threads: usize, n: usize, f: F) -> Report
where
	F: Fn(usize) -> Report + Sync,
{
	let next = Mutex::new(0usize);
	let results: Mutex<Vec<(usize, Report)>> = Mutex::new(Vec::new());
	std::thread::scope(|s| {
		for _ in 0..threads.max(1).min(n.max(1)) {
			s.spawn(|| loop {
				let i = {
					let mut g = next.lock().unwrap();
					let i = *g;
					*g += 1;
					i
				};
				if i >= n {
					break;
				}
				let r = match catch_unwind(AssertUnwindSafe(|| f(i))) {
					Ok(r) => r,
					Err(_) => {
						PANIC_DEPTH.with(|d| d.set(0));
						let mut r = Report::new();
						let m = LAST_PANIC
							.with(|p| p.borrow_mut().take())
							.unwrap_or_else(|| "panic".into());
						// a panic raised inside the library's own source (outside any guarded call of a monitor)
						// is the library panicking, not the harness
						// (or inside json-number, the number type of the library, which the harness itself only
						// reaches through the library)
						if in_library(&m) {
							let id = CURRENT_ID.get().cloned().unwrap_or_else(|| "C00".into());
							r.evaluations += 1;
							r.violation(format!("{}:library-panic", id), format!("the library panicked during the workload of shard {}: {}", i, m), serde_json::json!({"sub": "library-panic", "message": m}));
						} else {
							r.inconclusive.push(format!("harness panic in shard {}: {}", i, m));
						}
						r
					}
				};
				results.lock().unwrap().push((i, r));
			});
		}
	});
	let mut v = results.into_inner().unwrap();
	v.sort_by_key(|x| x.0);
	let mut total = Report::new();
	for (_, r) in v {
		total.merge(r)
	}
	total
}

/// One line of /verif/known-findings.txt.
#[derive(Clone, Debug)]
pub struct Finding {
	pub property: String,
	pub key: String,
	pub text: String,
}

pub fn load_findings(path: &Path) -> Vec<Finding> {
	let mut out = Vec::new();
	let Ok(s) = std::fs::read_to_string(path) else {
		return out;
	};
	for line in s.lines() {
		let line = line.trim();
		if let Some(rest) = line.strip_prefix("finding:") {
			let rest = rest.trim();
			let mut property = String::new();
			let mut key = String::new();
			let mut text = Vec::new();
			for tok in rest.split_whitespace() {
				if let Some(p) = tok.strip_prefix("property=") {
					if property.is_empty() {
						property = p.to_string();
						continue;
					}
				}
				if let Some(k) = tok.strip_prefix("key=") {
					if key.is_empty() {
						key = k.to_string();
						continue;
					}
				}
				text.push(tok);
			}
			out.push(Finding {
				property,
				key,
				text: text.join(" "),
			});
		}
	}
	out
}

pub struct Outcome {
	pub exit: i32,
}

pub struct EvidenceMeta<'a> {
	pub id: &'a str,
	pub rule: &'a str,
	pub exhaustive: bool,
	pub assumptions: Vec<String>,
	pub extra: J,
}

/// Splits violations into known findings and new ones, writes replays and the
/// evidence file, prints the verdict lines and returns the exit code.
pub fn conclude(cfg: &Config, meta: EvidenceMeta, mut report: Report, started: Instant, floor: u64) -> Outcome {
	let findings = load_findings(&cfg.verif_dir.join("known-findings.txt"));
	let mut known_lines: Vec<String> = Vec::new();
	let mut fresh: Vec<Violation> = Vec::new();
	for v in report.violations.drain(..) {
		if let Some(f) = findings.iter().find(|f| f.property == meta.id && f.key == v.signature) {
			let line = format!("KNOWN-FINDING: property={} {} [key={}]", meta.id, f.text, f.key);
			if !known_lines.contains(&line) {
				known_lines.push(line)
			}
		} else {
			fresh.push(v)
		}
	}
	for l in &known_lines {
		println!("{}", l)
	}

	let replay_dir = cfg.verif_dir.join("replays");
	let mut replay_paths = Vec::new();
	if !fresh.is_empty() {
		let _ = std::fs::create_dir_all(&replay_dir);
	}
	for v in &fresh {
		let name = format!("{}-{:016x}.json", meta.id, fnv(v.signature.as_bytes()) ^ fnv(v.what.as_bytes()));
		let path = replay_dir.join(name);
		let body = json!({
			"property": meta.id,
			"seed": cfg.seed,
			"tier": cfg.tier.name(),
			"signature": v.signature,
			"what": v.what,
			"case": v.case,
		});
		let _ = std::fs::write(&path, serde_json::to_string_pretty(&body).unwrap());
		replay_paths.push(path);
	}

	let distinct = report.distinct_count();
	let too_few = report.evaluations < floor || distinct < 2;
	if too_few {
		report.inconclusive.push(format!(
			"observed too little: evaluations={} (floor {}), distinct={}",
			report.evaluations, floor, distinct
		));
	}

	let mut coverage = serde_json::Map::new();
	coverage.insert("evaluations".into(), json!(report.evaluations));
	coverage.insert("distinct_nontrivial".into(), json!(distinct));
	coverage.insert(
		"rule".into(),
		json!(format!(
			"{}{}",
			meta.rule,
			if report.distinct_capped {
				" (hash set capped; further distinct cases not counted)"
			} else {
				""
			}
		)),
	);
	coverage.insert("samples".into(), J::Array(report.samples.clone()));
	coverage.insert("exhaustive".into(), json!(meta.exhaustive));
	coverage.insert("counters".into(), json!(report.counters));
	coverage.insert("maxima".into(), json!(report.maxima));
	coverage.insert("notes".into(), json!(report.notes));
	coverage.insert("known_findings_matched".into(), json!(known_lines));
	coverage.insert(
		"violation_signatures".into(),
		json!(fresh.iter().map(|v| v.signature.clone()).collect::<Vec<_>>()),
	);
	coverage.insert("violating_evaluations".into(), json!(report.violation_count));
	coverage.insert("inconclusive".into(), json!(report.inconclusive));
	coverage.insert("sanitizer_build".into(), json!(cfg.san));
	if let J::Object(m) = meta.extra {
		for (k, v) in m {
			coverage.insert(k, v);
		}
	}
	let evidence = json!({
		"property_id": meta.id,
		"tier": cfg.tier.name(),
		"seed": cfg.seed,
		"level": "exploration",
		"coverage": J::Object(coverage),
		"assumptions": meta.assumptions,
		"wall_s": started.elapsed().as_secs_f64(),
		"violations": fresh.len(),
	});
	if !cfg.san && cfg.shard.1 <= 1 {
		let dir = cfg.verif_dir.join("evidence");
		let _ = std::fs::create_dir_all(&dir);
		let tmp = dir.join(format!("{}.json.tmp", meta.id));
		let fin = dir.join(format!("{}.json", meta.id));
		if std::fs::write(&tmp, serde_json::to_string_pretty(&evidence).unwrap()).is_ok() {
			let _ = std::fs::rename(&tmp, &fin);
		}
	}

	println!(
		"{} {} seed={} evaluations={} distinct={} violations={} known={} wall={:.1}s",
		meta.id,
		cfg.tier.name(),
		cfg.seed,
		report.evaluations,
		distinct,
		fresh.len(),
		known_lines.len(),
		started.elapsed().as_secs_f64()
	);
	for (k, v) in &report.counters {
		println!("  {} = {}", k, v);
	}
	for (k, v) in &report.maxima {
		println!("  max {} = {}", k, v);
	}

	if !fresh.is_empty() {
		for (v, p) in fresh.iter().zip(&replay_paths) {
			println!("  violation [{}]: {}", v.signature, v.what);
			println!("VIOLATION property={} replay={}", meta.id, p.display());
		}
		return Outcome { exit: 1 };
	}
	if !report.inconclusive.is_empty() {
		for m in &report.inconclusive {
			println!("INCONCLUSIVE property={} {}", meta.id, m);
		}
		return Outcome { exit: 2 };
	}
	println!("HELD property={} on everything observed", meta.id);
	Outcome { exit: 0 }
}

/// Iterator-protocol monitor: whatever way an iterator is consumed (collect,
/// count, last, nth after a partial consumption, step_by, skip, fold) it must
/// yield exactly `expected`, and `size_hint` must bracket what remains.
/// Returns the number of comparisons made.
pub fn check_iter<T, I>(what: &str, make: &dyn Fn() -> I, expected: &[T]) -> Result<u64, String>
where
	T: PartialEq + std::fmt::Debug + Clone,
	I: Iterator<Item = T>,
{
	check_iter_by(what, make, &|x| x, expected)
}

/// Same, for iterators whose items are compared through a projection `f`.
/// Every operation is applied to the iterator itself (not to a `map` adaptor,
/// which would bypass overridden `nth` / `count` / `last` / `fold`).
pub fn check_iter_by<X, T, I>(what: &str, make: &dyn Fn() -> I, f: &dyn Fn(X) -> T, expected: &[T]) -> Result<u64, String>
where
	T: PartialEq + std::fmt::Debug + Clone,
	I: Iterator<Item = X>,
{
	let len = expected.len();
	let mut n_checks = 0u64;
	let fail = |how: &str, got: String| Err(format!("{}: {} yields {}, expected from {:?}", what, how, got, expected));
	// plain collection, with size_hint checked at every step
	let mut it = make();
	let mut got = Vec::new();
	loop {
		let remaining = len.saturating_sub(got.len());
		let (lo, hi) = it.size_hint();
		if lo > remaining || hi.map(|h| h < remaining).unwrap_or(false) {
			return fail("size_hint", format!("({}, {:?}) with {} items remaining", lo, hi, remaining));
		}
		match it.next() {
			Some(x) => got.push(f(x)),
			None => break,
		}
		if got.len() > len + 2 {
			break;
		}
	}
	n_checks += 1;
	if got != expected {
		return fail("next() until None", format!("{:?}", got));
	}
	if make().count() != len {
		return fail("count()", format!("{}", make().count()));
	}
	if make().last().map(f).as_ref() != expected.last() {
		return fail("last()", format!("{:?}", make().last().map(f)));
	}
	{
		// internal iteration must visit the same items in the same order
		let folded: Vec<T> = make().fold(Vec::new(), |mut a, x| {
			a.push(f(x));
			a
		});
		if folded != expected {
			return fail("fold", format!("{:?}", folded));
		}
		let mut each = Vec::new();
		make().for_each(|x| each.push(f(x)));
		if each != expected {
			return fail("for_each", format!("{:?}", each));
		}
		// after a partial consumption too
		if len >= 2 {
			let mut it = make();
			it.next();
			let rest: Vec<T> = it.fold(Vec::new(), |mut a, x| {
				a.push(f(x));
				a
			});
			if rest != expected[1..] {
				return fail("next() then fold", format!("{:?}", rest));
			}
			let mut it = make();
			it.next();
			if it.count() != len - 1 {
				return fail("next() then count()", "a different number of items".to_string());
			}
		}
	}
	n_checks += 3;
	{
		// other whole-iterator methods with default implementations an iterator may override
		if make().reduce(|a, _| a).map(f).as_ref() != expected.first() {
			return fail("reduce(keep the first)", format!("{:?}", make().reduce(|a, _| a).map(f)));
		}
		if make().reduce(|_, b| b).map(f).as_ref() != expected.last() {
			return fail("reduce(keep the last)", format!("{:?}", make().reduce(|_, b| b).map(f)));
		}
		if make().min_by(|_, _| std::cmp::Ordering::Equal).map(f).as_ref() != expected.first() {
			return fail("min_by(all equal), which keeps the first item,", format!("{:?}", make().min_by(|_, _| std::cmp::Ordering::Equal).map(f)));
		}
		if make().max_by(|_, _| std::cmp::Ordering::Equal).map(f).as_ref() != expected.last() {
			return fail("max_by(all equal), which keeps the last item,", format!("{:?}", make().max_by(|_, _| std::cmp::Ordering::Equal).map(f)));
		}
		let (l, r): (Vec<X>, Vec<X>) = {
			let mut k = 0usize;
			make().partition(|_| {
				k += 1;
				k % 2 == 1
			})
		};
		let l: Vec<T> = l.into_iter().map(f).collect();
		let r: Vec<T> = r.into_iter().map(f).collect();
		let wl: Vec<T> = expected.iter().step_by(2).cloned().collect();
		let wr: Vec<T> = expected.iter().skip(1).step_by(2).cloned().collect();
		if l != wl || r != wr {
			return fail("partition(alternating)", format!("{:?} / {:?}", l, r));
		}
		if make().enumerate().last().map(|(i, x)| (i, f(x))) != expected.last().cloned().map(|x| (len - 1, x)) {
			return fail("enumerate().last()", "something else".to_string());
		}
		// searching methods stop at the k-th item; the rest of the iteration continues after it
		for k in 0..=len.min(3) {
			let mut seen = 0usize;
			let mut it = make();
			let got = it
				.find(|_| {
					seen += 1;
					seen == k + 1
				})
				.map(f);
			if got.as_ref() != expected.get(k) {
				return fail(&format!("find(the item number {})", k), format!("{:?}", got));
			}
			let rest: Vec<T> = it.map(f).collect();
			let want: Vec<T> = expected.iter().skip(k + 1).cloned().collect();
			if rest != want && k < len {
				return fail(&format!("the items after find(the item number {})", k), format!("{:?}", rest));
			}
			let mut seen = 0usize;
			let mut it = make();
			let got = it.position(|_| {
				seen += 1;
				seen == k + 1
			});
			if got != if k < len { Some(k) } else { None } {
				return fail(&format!("position(the item number {})", k), format!("{:?}", got));
			}
			let rest: Vec<T> = it.map(f).collect();
			if rest != want && k < len {
				return fail(&format!("the items after position(the item number {})", k), format!("{:?}", rest));
			}
			let mut seen = 0usize;
			let mut it = make();
			let got = it.any(|_| {
				seen += 1;
				seen == k + 1
			});
			if got != (k < len) {
				return fail(&format!("any(the item number {})", k), format!("{:?}", got));
			}
			let rest: Vec<T> = it.map(f).collect();
			if rest != want && k < len {
				return fail(&format!("the items after any(the item number {})", k), format!("{:?}", rest));
			}
			n_checks += 3;
		}
		if make().take(2).count() != len.min(2) || make().chain(make()).count() != 2 * len {
			return fail("take(2).count() / chain", "a different number of items".to_string());
		}
		n_checks += 8;
	}
	for m in 0..=len.min(3) {
		for n in 0..=(len + 1).min(4) {
			let mut it = make();
			for _ in 0..m {
				it.next();
			}
			let got = it.nth(n).map(f);
			n_checks += 1;
			if got.as_ref() != expected.get(m + n) {
				return fail(&format!("nth({}) after {} next()", n, m), format!("{:?}", got));
			}
			let after = it.next().map(f);
			if after.as_ref() != expected.get(m + n + 1) && m + n < len {
				return fail(&format!("next() after nth({}) after {} next()", n, m), format!("{:?}", after));
			}
			// and the rest of the iteration after that
			let rest: Vec<T> = it.map(f).collect();
			let want_rest: Vec<T> = expected.iter().skip(m + n + 2).cloned().collect();
			if rest != want_rest && m + n < len {
				return fail(&format!("the items after nth({}) after {} next()", n, m), format!("{:?}", rest));
			}
		}
	}
	for step in [2usize, 3] {
		let got: Vec<T> = make().step_by(step).map(f).collect();
		let want: Vec<T> = expected.iter().step_by(step).cloned().collect();
		n_checks += 1;
		if got != want {
			return fail(&format!("step_by({})", step), format!("{:?}", got));
		}
	}
	for skip in [1usize, 2, len] {
		let got: Vec<T> = make().skip(skip).map(f).collect();
		let want: Vec<T> = expected.iter().skip(skip).cloned().collect();
		n_checks += 1;
		if got != want {
			return fail(&format!("skip({})", skip), format!("{:?}", got));
		}
		// skip after a partial consumption
		let mut it = make();
		it.next();
		let got: Vec<T> = it.skip(skip).map(f).collect();
		let want: Vec<T> = expected.iter().skip(1 + skip).cloned().collect();
		if got != want {
			return fail(&format!("next() then skip({})", skip), format!("{:?}", got));
		}
	}
	Ok(n_checks)
}

/// `min` / `max` (and their partial-consumption variants) of an iterator whose
/// items are ordered: compared with the same methods of a `Vec` of the items
/// obtained through `next()`.
pub fn check_iter_ord<X, T, I>(what: &str, make: &dyn Fn() -> I, f: &dyn Fn(X) -> T) -> Result<u64, String>
where
	X: Ord,
	T: PartialEq + std::fmt::Debug,
	I: Iterator<Item = X>,
{
	let by_next = || {
		let mut v = Vec::new();
		let mut it = make();
		while let Some(x) = it.next() {
			v.push(x);
		}
		v
	};
	let mut n = 0u64;
	for skip in 0..=2usize {
		let adv = |skip: usize| {
			let mut it = make();
			for _ in 0..skip {
				it.next();
			}
			it
		};
		let got = Iterator::max(adv(skip)).map(f);
		let want = Iterator::max(by_next().into_iter().skip(skip)).map(f);
		if got != want {
			return Err(format!("{}: max() after {} next() gives {:?}, expected {:?}", what, skip, got, want));
		}
		let got = Iterator::min(adv(skip)).map(f);
		let want = Iterator::min(by_next().into_iter().skip(skip)).map(f);
		if got != want {
			return Err(format!("{}: min() after {} next() gives {:?}, expected {:?}", what, skip, got, want));
		}
		let got = adv(skip).max_by(|a, b| a.cmp(b)).map(f);
		let want = by_next().into_iter().skip(skip).max_by(|a, b| a.cmp(b)).map(f);
		if got != want {
			return Err(format!("{}: max_by(cmp) after {} next() gives {:?}, expected {:?}", what, skip, got, want));
		}
		let got = adv(skip).min_by(|a, b| a.cmp(b)).map(f);
		let want = by_next().into_iter().skip(skip).min_by(|a, b| a.cmp(b)).map(f);
		if got != want {
			return Err(format!("{}: min_by(cmp) after {} next() gives {:?}, expected {:?}", what, skip, got, want));
		}
		if adv(skip).is_sorted() != by_next().into_iter().skip(skip).is_sorted() {
			return Err(format!("{}: is_sorted() after {} next() differs from that of the collected items", what, skip));
		}
		n += 5;
	}
	Ok(n)
}

/// Double-ended part of the protocol: rev, nth_back, next_back after nth.
pub fn check_iter_back<T, I>(what: &str, make: &dyn Fn() -> I, expected: &[T]) -> Result<u64, String>
where
	T: PartialEq + std::fmt::Debug + Clone,
	I: DoubleEndedIterator<Item = T>,
{
	let len = expected.len();
	let mut n_checks = 0u64;
	let fail = |how: &str, got: String| Err(format!("{}: {} yields {}, expected from {:?}", what, how, got, expected));
	let got: Vec<T> = make().rev().collect();
	let mut want: Vec<T> = expected.to_vec();
	want.reverse();
	n_checks += 1;
	if got != want {
		return fail("rev()", format!("{:?}", got));
	}
	for m in 0..=len.min(3) {
		for n in 0..=(len + 1).min(4) {
			// m items taken from the front, then nth_back(n)
			let mut it = make();
			for _ in 0..m {
				it.next();
			}
			let got = it.nth_back(n);
			let want = if m + n < len { expected.get(len - 1 - n) } else { None };
			n_checks += 1;
			if got.as_ref() != want {
				return fail(&format!("nth_back({}) after {} next()", n, m), format!("{:?}", got));
			}
			// m items taken from the back, then nth(n)
			let mut it = make();
			for _ in 0..m {
				it.next_back();
			}
			let got = it.nth(n);
			let want = if m + n < len { expected.get(n) } else { None };
			if got.as_ref() != want {
				return fail(&format!("nth({}) after {} next_back()", n, m), format!("{:?}", got));
			}
		}
	}
	{
		let r: Vec<T> = make().rfold(Vec::new(), |mut a, x| {
			a.push(x);
			a
		});
		if r != want {
			return fail("rfold", format!("{:?}", r));
		}
		let r: Vec<T> = make().rev().fold(Vec::new(), |mut a, x| {
			a.push(x);
			a
		});
		if r != want {
			return fail("rev().fold", format!("{:?}", r));
		}
		let mut each = Vec::new();
		make().rev().for_each(|x| each.push(x));
		if each != want {
			return fail("rev().for_each", format!("{:?}", each));
		}
		if make().rev().last().as_ref() != expected.first() {
			return fail("rev().last()", format!("{:?}", make().rev().last()));
		}
		if len >= 2 {
			let mut it = make();
			it.next_back();
			let r: Vec<T> = it.rfold(Vec::new(), |mut a, x| {
				a.push(x);
				a
			});
			if r != want[1..] {
				return fail("next_back() then rfold", format!("{:?}", r));
			}
		}
	}
	Ok(n_checks)
}
